/*****************************************************************************
 * h265.h: (shim) ITU-T H.265 (ISO/IEC 23008-2) constants and NAL/hvcC helpers
 *****************************************************************************
 * This is NOT the biTStream library. It is an independently written,
 * API-compatible subset (same names, same signatures, same byte offsets)
 * written from ITU-T H.265 / ISO/IEC 23008-2 (clause 7.3.1.2 / table 7-1 for
 * NAL unit types, 7.3.3 profile_tier_level, 7.4.7.1 slice types, annex A.4
 * levels, annex D SEI, annex E VUI) and ISO/IEC 14496-15 clause 8.3.3.1.2
 * (HEVCDecoderConfigurationRecord). See ../../README.md.
 *
 * Naming conventions (identical to biTStream):
 *  - h265nal_*(p) : p points to a 3-octet annex B start code (00 00 01)
 *                   followed by the 2-octet NAL header at p[3..4];
 *  - h265nalst_*(b): b is the FIRST octet of the NAL header:
 *                   b7 forbidden_zero_bit, b6-1 nal_unit_type,
 *                   b0 nuh_layer_id msb.
 *    second octet:  b7-3 nuh_layer_id (5 lsb), b2-0 nuh_temporal_id_plus1.
 *****************************************************************************/

#ifndef __BITSTREAM_ITU_H265_H__
#define __BITSTREAM_ITU_H265_H__

#include <stdint.h>
#include <stdbool.h>
#include <stddef.h>   /* size_t */

#ifdef __cplusplus
extern "C"
{
#endif

/*****************************************************************************
 * H265 network abstraction layer (annex B)
 *****************************************************************************/
#define H265NAL_HEADER_SIZE         5   /* 3-octet start code + NAL header */

/* nal_unit_type, H.265 table 7-1 */
#define H265NAL_TYPE_TRAIL_N        0
#define H265NAL_TYPE_TRAIL_R        1
#define H265NAL_TYPE_TSA_N          2
#define H265NAL_TYPE_TSA_R          3
#define H265NAL_TYPE_STSA_N         4
#define H265NAL_TYPE_STSA_R         5
#define H265NAL_TYPE_RADL_N         6
#define H265NAL_TYPE_RADL_R         7
#define H265NAL_TYPE_RASL_N         8
#define H265NAL_TYPE_RASL_R         9
#define H265NAL_TYPE_RSV_VCL_N10    10
#define H265NAL_TYPE_RSV_VCL_R11    11
#define H265NAL_TYPE_RSV_VCL_N12    12
#define H265NAL_TYPE_RSV_VCL_R13    13
#define H265NAL_TYPE_RSV_VCL_N14    14
#define H265NAL_TYPE_RSV_VCL_R15    15
#define H265NAL_TYPE_BLA_W_LP       16
#define H265NAL_TYPE_BLA_W_RADL     17
#define H265NAL_TYPE_BLA_N_LP       18
#define H265NAL_TYPE_IDR_W_RADL     19
#define H265NAL_TYPE_IDR_N_LP       20
#define H265NAL_TYPE_CRA            21
#define H265NAL_TYPE_IRAP_VCL22     22  /* RSV_IRAP_VCL22 */
#define H265NAL_TYPE_IRAP_VCL23     23  /* RSV_IRAP_VCL23 */
#define H265NAL_TYPE_VPS            32
#define H265NAL_TYPE_SPS            33
#define H265NAL_TYPE_PPS            34
#define H265NAL_TYPE_AUD            35
#define H265NAL_TYPE_EOS            36  /* end of sequence */
#define H265NAL_TYPE_EOB            37  /* end of bitstream */
#define H265NAL_TYPE_FD             38  /* filler data */
#define H265NAL_TYPE_PREF_SEI       39  /* PREFIX_SEI_NUT */
#define H265NAL_TYPE_SUFF_SEI       40  /* SUFFIX_SEI_NUT */

/** Writes start code and a NAL header with nal_unit_type 0, nuh_layer_id 0,
 * nuh_temporal_id_plus1 1. */
static inline void h265nal_init(uint8_t *p_h265nal)
{
    p_h265nal[0] = 0x0;
    p_h265nal[1] = 0x0;
    p_h265nal[2] = 0x1;
    p_h265nal[3] = 0;
    p_h265nal[4] = 1;
}

/** Sets nal_unit_type, preserving the nuh_layer_id msb, and clearing
 * forbidden_zero_bit. */
static inline void h265nal_set_type(uint8_t *p_h265nal, uint8_t type)
{
    p_h265nal[3] &= 0x1;
    p_h265nal[3] |= (type & 0x3f) << 1;
}

static inline uint8_t h265nal_get_type(const uint8_t *p_h265nal)
{
    return (p_h265nal[3] & 0x7e) >> 1;
}

static inline void h265nal_set_temporal_id_1(uint8_t *p_h265nal, uint8_t val)
{
    p_h265nal[4] &= 0xf8;
    p_h265nal[4] |= val & 0x7;
}

static inline uint8_t h265nal_get_temporal_id_1(const uint8_t *p_h265nal)
{
    return p_h265nal[4] & 0x7;
}

/** @param start first octet of the NAL header; returns nal_unit_type. */
static inline uint8_t h265nalst_get_type(uint8_t start)
{
    return (start & 0x7e) >> 1;
}

/*****************************************************************************
 * H265 supplemental enhancement information (annex D)
 *****************************************************************************/
/* payloadType, D.2.1 */
#define H265SEI_BUFFERING_PERIOD    0
#define H265SEI_PIC_TIMING          1
#define H265SEI_PAN_SCAN_RECT       2
#define H265SEI_FILLER_PAYLOAD      3
#define H265SEI_USER_T_T35          4
#define H265SEI_USER_UNREGISTERED   5
#define H265SEI_RECOVERY_POINT      6

/* pic_struct, table D.2 */
#define H265SEI_STRUCT_FRAME        0
#define H265SEI_STRUCT_TOP          1
#define H265SEI_STRUCT_BOT          2
#define H265SEI_STRUCT_TOP_BOT      3
#define H265SEI_STRUCT_BOT_TOP      4
#define H265SEI_STRUCT_TOP_BOT_TOP  5
#define H265SEI_STRUCT_BOT_TOP_BOT  6
#define H265SEI_STRUCT_DOUBLE       7
#define H265SEI_STRUCT_TRIPLE       8
#define H265SEI_STRUCT_TOP_PREV_BOT 9   /* top paired with previous bottom */
#define H265SEI_STRUCT_BOT_PREV_TOP 10  /* bottom paired with previous top */
#define H265SEI_STRUCT_TOP_NEXT_BOT 11  /* top paired with next bottom */
#define H265SEI_STRUCT_BOT_NEXT_TOP 12  /* bottom paired with next top */

/*****************************************************************************
 * H265 profile tier level (7.3.3)
 *****************************************************************************/
/* Size in octets of the (general or sub_layer) profile part: profile_space
 * (2) + tier_flag (1) + profile_idc (5) + profile_compatibility_flag (32) +
 * progressive/interlaced/non_packed/frame_only flags (4) + reserved (43) +
 * inbld/reserved (1) = 88 bits. */
#define H265PTL_PROFILE_SIZE        11

/*****************************************************************************
 * H265 video parameter set (7.3.2.1)
 *****************************************************************************/
#define H265VPS_ID_MAX              16  /* vps_video_parameter_set_id u(4) */

/* general_level_idc = 30 * level number, A.4.1 */
#define H265VPS_LEVEL_1_0           30
#define H265VPS_LEVEL_2_0           60
#define H265VPS_LEVEL_2_1           63
#define H265VPS_LEVEL_3_0           90
#define H265VPS_LEVEL_3_1           93
#define H265VPS_LEVEL_4_0           120
#define H265VPS_LEVEL_4_1           123
#define H265VPS_LEVEL_5_0           150
#define H265VPS_LEVEL_5_1           153
#define H265VPS_LEVEL_5_2           156
#define H265VPS_LEVEL_6_0           180
#define H265VPS_LEVEL_6_1           183
#define H265VPS_LEVEL_6_2           186

/*****************************************************************************
 * H265 sequence parameter set (7.3.2.2)
 *****************************************************************************/
#define H265SPS_ID_MAX              16  /* sps_seq_parameter_set_id in 0..15 */

/* chroma_format_idc, table 6-1 */
#define H265SPS_CHROMA_MONO         0
#define H265SPS_CHROMA_420          1
#define H265SPS_CHROMA_422          2
#define H265SPS_CHROMA_444          3

/* aspect_ratio_idc EXTENDED_SAR, table E.1 */
#define H265VUI_AR_EXTENDED         255

/*****************************************************************************
 * H265 picture parameter set (7.3.2.3)
 *****************************************************************************/
#define H265PPS_ID_MAX              64  /* pps_pic_parameter_set_id in 0..63 */

/*****************************************************************************
 * H265 slice (7.4.7.1, table 7-7)
 *****************************************************************************/
#define H265SLI_TYPE_B              0
#define H265SLI_TYPE_P              1
#define H265SLI_TYPE_I              2

/*****************************************************************************
 * H265 hvcC structure: HEVCDecoderConfigurationRecord, 14496-15 8.3.3.1.2
 *****************************************************************************
 *   [0]       configurationVersion = 1
 *   [1] b7-6  general_profile_space
 *       b5    general_tier_flag
 *       b4-0  general_profile_idc
 *   [2..5]    general_profile_compatibility_flags (32)
 *   [6..11]   general_constraint_indicator_flags (48)
 *   [12]      general_level_idc
 *   [13..14]  reserved '1111' | min_spatial_segmentation_idc (12)
 *   [15]      reserved '111111' | parallelismType (2)
 *   [16]      reserved '111111' | chromaFormat (2)
 *   [17]      reserved '11111' | bitDepthLumaMinus8 (3)
 *   [18]      reserved '11111' | bitDepthChromaMinus8 (3)
 *   [19..20]  avgFrameRate (16)
 *   [21] b7-6 constantFrameRate
 *       b5-3  numTemporalLayers
 *       b2    temporalIdNested
 *       b1-0  lengthSizeMinusOne
 *   [22]      numOfArrays
 *   arrays:
 *     [0] b7  array_completeness, b6 reserved '0', b5-0 NAL_unit_type
 *     [1..2]  numNalus (16)
 *     { nalUnitLength (16), nalUnit } * numNalus
 *****************************************************************************/
#define H265HVCC_HEADER             23
#define H265HVCC_ARRAY_HEADER       3
#define H265HVCC_NALU_HEADER        2

/** Sets version 1, all reserved bits to 1 and every other field to 0. */
static inline void h265hvcc_init(uint8_t *p)
{
    p[0] = 1; /* version */
    p[1] = 0;
    p[2] = p[3] = p[4] = p[5] = 0;
    p[6] = p[7] = p[8] = p[9] = p[10] = p[11] = 0;
    p[12] = 0;
    p[13] = 0xf0;
    p[14] = 0;
    p[15] = 0xfc;
    p[16] = 0xfc;
    p[17] = 0xf8;
    p[18] = 0xf8;
    p[19] = 0;
    p[20] = 0;
    p[21] = 0;
    p[22] = 0;
}

static inline void h265hvcc_set_profile_space(uint8_t *p, uint8_t val)
{
    p[1] &= ~0xc0;
    p[1] |= (val & 0x3) << 6;
}

static inline uint8_t h265hvcc_get_profile_space(const uint8_t *p)
{
    return p[1] >> 6;
}

static inline void h265hvcc_set_tier(uint8_t *p)
{
    p[1] |= 0x20;
}

static inline bool h265hvcc_get_tier(const uint8_t *p)
{
    return !!(p[1] & 0x20);
}

static inline void h265hvcc_set_profile_idc(uint8_t *p, uint8_t val)
{
    p[1] &= ~0x1f;
    p[1] |= val & 0x1f;
}

static inline uint8_t h265hvcc_get_profile_idc(const uint8_t *p)
{
    return p[1] & 0x1f;
}

/** general_profile_compatibility_flag[0] is the msb of val. */
static inline void h265hvcc_set_profile_compatibility(uint8_t *p, uint32_t val)
{
    p[2] = val >> 24;
    p[3] = (val >> 16) & 0xff;
    p[4] = (val >> 8) & 0xff;
    p[5] = val & 0xff;
}

static inline uint32_t h265hvcc_get_profile_compatibility(const uint8_t *p)
{
    return ((uint32_t)p[2] << 24) | (p[3] << 16) | (p[4] << 8) | p[5];
}

/** 48 bits following general_profile_compatibility_flags in
 * profile_tier_level(), general_progressive_source_flag being bit 47. */
static inline void h265hvcc_set_constraint_indicator(uint8_t *p, uint64_t val)
{
    p[6] = (val >> 40) & 0xff;
    p[7] = (val >> 32) & 0xff;
    p[8] = (val >> 24) & 0xff;
    p[9] = (val >> 16) & 0xff;
    p[10] = (val >> 8) & 0xff;
    p[11] = val & 0xff;
}

static inline uint64_t h265hvcc_get_constraint_indicator(const uint8_t *p)
{
    return ((uint64_t)p[6] << 40) | ((uint64_t)p[7] << 32) |
           ((uint64_t)p[8] << 24) | ((uint64_t)p[9] << 16) |
           ((uint64_t)p[10] << 8) | (uint64_t)p[11];
}

static inline void h265hvcc_set_level_idc(uint8_t *p, uint8_t val)
{
    p[12] = val;
}

static inline uint8_t h265hvcc_get_level_idc(const uint8_t *p)
{
    return p[12];
}

static inline void h265hvcc_set_min_spatial_segmentation_idc(uint8_t *p,
                                                             uint16_t val)
{
    p[13] = 0xf0 | ((val >> 8) & 0xf);
    p[14] = val & 0xff;
}

static inline uint16_t
    h265hvcc_get_min_spatial_segmentation_idc(const uint8_t *p)
{
    return ((p[13] & 0xf) << 8) | p[14];
}

static inline void h265hvcc_set_parallelism_type(uint8_t *p, uint8_t val)
{
    p[15] = 0xfc | (val & 0x3);
}

static inline uint8_t h265hvcc_get_parallelism_type(const uint8_t *p)
{
    return p[15] & 0x3;
}

static inline void h265hvcc_set_chroma_format(uint8_t *p, uint8_t val)
{
    p[16] = 0xfc | (val & 0x3);
}

static inline uint8_t h265hvcc_get_chroma_format(const uint8_t *p)
{
    return p[16] & 0x3;
}

static inline void h265hvcc_set_bitdepth_luma_8(uint8_t *p, uint8_t val)
{
    p[17] = 0xf8 | (val & 0x7);
}

static inline uint8_t h265hvcc_get_bitdepth_luma_8(const uint8_t *p)
{
    return p[17] & 0x7;
}

static inline void h265hvcc_set_bitdepth_chroma_8(uint8_t *p, uint8_t val)
{
    p[18] = 0xf8 | (val & 0x7);
}

static inline uint8_t h265hvcc_get_bitdepth_chroma_8(const uint8_t *p)
{
    return p[18] & 0x7;
}

static inline void h265hvcc_set_avg_frame_rate(uint8_t *p, uint16_t val)
{
    p[19] = val >> 8;
    p[20] = val & 0xff;
}

static inline uint16_t h265hvcc_get_avg_frame_rate(const uint8_t *p)
{
    return (p[19] << 8) | p[20];
}

static inline void h265hvcc_set_constant_frame_rate(uint8_t *p, uint8_t val)
{
    p[21] &= ~0xc0;
    p[21] |= (val & 0x3) << 6;
}

static inline uint8_t h265hvcc_get_constant_frame_rate(const uint8_t *p)
{
    return p[21] >> 6;
}

static inline void h265hvcc_set_num_temporal_layers(uint8_t *p, uint8_t val)
{
    p[21] &= ~0x38;
    p[21] |= (val & 0x7) << 3;
}

static inline uint8_t h265hvcc_get_num_temporal_layers(const uint8_t *p)
{
    return (p[21] & 0x38) >> 3;
}

static inline void h265hvcc_set_temporal_id_nested(uint8_t *p)
{
    p[21] |= 0x4;
}

static inline bool h265hvcc_get_temporal_id_nested(const uint8_t *p)
{
    return !!(p[21] & 0x4);
}

static inline void h265hvcc_set_length_size_1(uint8_t *p, uint8_t val)
{
    p[21] &= ~0x3;
    p[21] |= val & 0x3;
}

static inline uint8_t h265hvcc_get_length_size_1(const uint8_t *p)
{
    return p[21] & 0x3;
}

static inline void h265hvcc_set_num_of_arrays(uint8_t *p, uint8_t val)
{
    p[22] = val;
}

static inline uint8_t h265hvcc_get_num_of_arrays(const uint8_t *p)
{
    return p[22];
}

/* p points to a { length, NAL unit } entry */
static inline void h265hvcc_nalu_set_length(uint8_t *p, uint16_t val)
{
    p[0] = val >> 8;
    p[1] = val & 0xff;
}

static inline uint16_t h265hvcc_nalu_get_length(const uint8_t *p)
{
    return (p[0] << 8) | p[1];
}

static inline uint8_t *h265hvcc_nalu_get_nalu(const uint8_t *p)
{
    return (uint8_t *)p + H265HVCC_NALU_HEADER;
}

/* p points to an array header */
/** Resets the whole first octet: array_completeness is cleared. */
static inline void h265hvcc_array_init(uint8_t *p)
{
    p[0] = 0;
    p[1] = 0;
    p[2] = 0;
}

static inline void h265hvcc_array_set_completeness(uint8_t *p)
{
    p[0] |= 0x80;
}

static inline bool h265hvcc_array_get_completeness(const uint8_t *p)
{
    return !!(p[0] & 0x80);
}

/** Sets NAL_unit_type and clears array_completeness and the reserved bit
 * (the octet is not required to be initialized beforehand). */
static inline void h265hvcc_array_set_nal_unit_type(uint8_t *p, uint8_t val)
{
    p[0] = val & 0x3f;
}

static inline uint8_t h265hvcc_array_get_nal_unit_type(const uint8_t *p)
{
    return p[0] & 0x3f;
}

static inline void h265hvcc_array_set_num_nalus(uint8_t *p, uint16_t val)
{
    p[1] = val >> 8;
    p[2] = val & 0xff;
}

static inline uint16_t h265hvcc_array_get_num_nalus(const uint8_t *p)
{
    return (p[1] << 8) | p[2];
}

/** Returns the n-th { length, NAL unit } entry of an array; n == numNalus
 * yields the end of the array. Walks the previous entries, whose lengths
 * must already be set. No bounds checking. */
static inline uint8_t *h265hvcc_array_get_nalu(const uint8_t *p, uint16_t n)
{
    p += H265HVCC_ARRAY_HEADER;
    while (n) {
        uint16_t length = h265hvcc_nalu_get_length(p);
        p += H265HVCC_NALU_HEADER + length;
        n--;
    }
    return (uint8_t *)p;
}

/** Returns the n-th array; n == numOfArrays yields the end of the structure.
 * Walks the previous arrays, which must already be complete. No bounds
 * checking (call h265hvcc_validate() first). */
static inline uint8_t *h265hvcc_get_array(const uint8_t *p, uint8_t n)
{
    p += H265HVCC_HEADER;
    while (n) {
        p = h265hvcc_array_get_nalu(p, h265hvcc_array_get_num_nalus(p));
        n--;
    }
    return (uint8_t *)p;
}

/** Checks configurationVersion == 1 and that every array header and NAL unit
 * announced lies within the size octets of the buffer. */
static inline bool h265hvcc_validate(const uint8_t *p, size_t size)
{
    size_t offset = H265HVCC_HEADER;
    uint8_t arrays;

    if (size < H265HVCC_HEADER)
        return false;
    if (p[0] != 1)
        return false;

    arrays = h265hvcc_get_num_of_arrays(p);
    while (arrays) {
        uint16_t nalus;
        if (offset + H265HVCC_ARRAY_HEADER > size)
            return false;
        nalus = h265hvcc_array_get_num_nalus(p + offset);
        offset += H265HVCC_ARRAY_HEADER;
        while (nalus) {
            if (offset + H265HVCC_NALU_HEADER > size)
                return false;
            offset += H265HVCC_NALU_HEADER +
                      h265hvcc_nalu_get_length(p + offset);
            if (offset > size)
                return false;
            nalus--;
        }
        arrays--;
    }
    return true;
}

#ifdef __cplusplus
}
#endif

#endif
