/*****************************************************************************
 * ts.h: (shim) ISO/IEC 13818-1 Transport Stream packet accessors
 *****************************************************************************
 * This is NOT the biTStream library. It is an independently written,
 * API-compatible subset (same names, same signatures, same byte offsets)
 * written from ISO/IEC 13818-1 (ITU-T H.222.0) clause 2.4.3.2 (transport
 * packet), 2.4.3.4/2.4.3.5 (adaptation field). See ../../README.md.
 *
 * Conventions (identical to biTStream):
 *  - p_ts always points to the sync byte of a 188-octet packet;
 *  - tsaf_*() functions ALSO take a pointer to the sync byte (not to the
 *    adaptation field), and must only be called when ts_has_adaptation() and
 *    ts_get_adaptation() > 0.
 *
 * Transport packet layout (2.4.3.2):
 *   [0]     sync_byte = 0x47
 *   [1] b7  transport_error_indicator
 *       b6  payload_unit_start_indicator
 *       b5  transport_priority
 *       b4-0 PID (5 msb)
 *   [2]     PID (8 lsb)
 *   [3] b7-6 transport_scrambling_control
 *       b5  adaptation_field_control msb (adaptation field present)
 *       b4  adaptation_field_control lsb (payload present)
 *       b3-0 continuity_counter
 * Adaptation field layout (2.4.3.4):
 *   [4]     adaptation_field_length
 *   [5] b7  discontinuity_indicator
 *       b6  random_access_indicator
 *       b5  elementary_stream_priority_indicator
 *       b4  PCR_flag
 *       b3  OPCR_flag
 *       b2  splicing_point_flag
 *       b1  transport_private_data_flag
 *       b0  adaptation_field_extension_flag
 *   [6..11] program_clock_reference_base (33) reserved (6) extension (9)
 *****************************************************************************/

#ifndef __BITSTREAM_MPEG_TS_H__
#define __BITSTREAM_MPEG_TS_H__

#include <stdlib.h>   /* malloc */
#include <stdint.h>
#include <stdbool.h>
#include <string.h>   /* memset */

#ifdef __cplusplus
extern "C"
{
#endif

/*****************************************************************************
 * TS header
 *****************************************************************************/
#define TS_SIZE             188
#define TS_HEADER_SIZE      4
#define TS_HEADER_SIZE_AF   6
#define TS_HEADER_SIZE_PCR  12

#define TS_DECLARE(p_ts)    \
    uint8_t p_ts[TS_SIZE]

static inline uint8_t *ts_allocate(void)
{
    return (uint8_t *)malloc(TS_SIZE * sizeof(uint8_t));
}

/** Writes sync byte, clears every other header bit (PID 0, cc 0, neither
 * payload nor adaptation field). */
static inline void ts_init(uint8_t *p_ts)
{
    p_ts[0] = 0x47;
    p_ts[1] = 0x0;
    p_ts[2] = 0x0;
    p_ts[3] = 0x0;
}

static inline void ts_set_transporterror(uint8_t *p_ts)
{
    p_ts[1] |= 0x80;
}

static inline bool ts_get_transporterror(const uint8_t *p_ts)
{
    return !!(p_ts[1] & 0x80);
}

static inline void ts_set_unitstart(uint8_t *p_ts)
{
    p_ts[1] |= 0x40;
}

static inline bool ts_get_unitstart(const uint8_t *p_ts)
{
    return !!(p_ts[1] & 0x40);
}

static inline void ts_set_transportpriority(uint8_t *p_ts)
{
    p_ts[1] |= 0x20;
}

static inline bool ts_get_transportpriority(const uint8_t *p_ts)
{
    return !!(p_ts[1] & 0x20);
}

static inline void ts_set_pid(uint8_t *p_ts, uint16_t i_pid)
{
    p_ts[1] &= ~0x1f;
    p_ts[1] |= (i_pid >> 8) & 0x1f;
    p_ts[2] = i_pid & 0xff;
}

static inline uint16_t ts_get_pid(const uint8_t *p_ts)
{
    return ((p_ts[1] & 0x1f) << 8) | p_ts[2];
}

static inline void ts_set_cc(uint8_t *p_ts, uint8_t i_cc)
{
    p_ts[3] &= ~0xf;
    p_ts[3] |= (i_cc & 0xf);
}

static inline uint8_t ts_get_cc(const uint8_t *p_ts)
{
    return p_ts[3] & 0xf;
}

static inline void ts_set_payload(uint8_t *p_ts)
{
    p_ts[3] |= 0x10;
}

static inline bool ts_has_payload(const uint8_t *p_ts)
{
    return !!(p_ts[3] & 0x10);
}

/** Sets the adaptation-field-present bit and adaptation_field_length.
 * If i_length >= 1 all adaptation flags are cleared; if i_length >= 2 the
 * remaining i_length - 1 octets are filled with 0xff stuffing (2.4.3.5
 * stuffing_byte). i_length == 0 yields the single-octet adaptation field. */
static inline void ts_set_adaptation(uint8_t *p_ts, uint8_t i_length)
{
    p_ts[3] |= 0x20;
    p_ts[4] = i_length;
    if (i_length)
        p_ts[5] = 0x0;
    if (i_length > 1)
        memset(&p_ts[6], 0xff, i_length - 1); /* stuffing */
}

static inline bool ts_has_adaptation(const uint8_t *p_ts)
{
    return !!(p_ts[3] & 0x20);
}

/** Returns adaptation_field_length (only valid if ts_has_adaptation()). */
static inline uint8_t ts_get_adaptation(const uint8_t *p_ts)
{
    return p_ts[4];
}

static inline void ts_set_scrambling(uint8_t *p_ts, uint8_t i_scrambling)
{
    p_ts[3] &= ~0xc0;
    p_ts[3] |= (i_scrambling & 0x3) << 6;
}

static inline uint8_t ts_get_scrambling(const uint8_t *p_ts)
{
    return (p_ts[3] & 0xc0) >> 6;
}

/** Only checks the sync byte. */
static inline bool ts_validate(const uint8_t *p_ts)
{
    return p_ts[0] == 0x47;
}

/** Builds a null packet (2.4.3.3: PID 0x1fff, payload only, cc 0, payload
 * filled with 0xff). */
static inline void ts_pad(uint8_t *p_ts)
{
    ts_init(p_ts);
    ts_set_pid(p_ts, 0x1fff);
    ts_set_cc(p_ts, 0);
    ts_set_payload(p_ts);
    memset(p_ts + TS_HEADER_SIZE, 0xff, TS_SIZE - TS_HEADER_SIZE);
}

/** Returns a pointer to the first payload octet, or p_ts + TS_SIZE if there
 * is none. */
static inline uint8_t *ts_payload(uint8_t *p_ts)
{
    if (!ts_has_payload(p_ts))
        return p_ts + TS_SIZE;
    if (!ts_has_adaptation(p_ts))
        return p_ts + TS_HEADER_SIZE;
    return p_ts + TS_HEADER_SIZE + 1 + ts_get_adaptation(p_ts);
}

/** Returns a pointer to the continuing section data (after pointer_field if
 * payload_unit_start_indicator is set). */
static inline uint8_t *ts_section(uint8_t *p_ts)
{
    if (!ts_get_unitstart(p_ts))
        return ts_payload(p_ts);

    return ts_payload(p_ts) + 1; /* pointer_field */
}

/** Returns a pointer to the first new section of the packet (2.4.4.1
 * pointer_field), or p_ts + TS_SIZE. */
static inline uint8_t *ts_next_section(uint8_t *p_ts)
{
    uint8_t *p_payload;

    if (!ts_get_unitstart(p_ts))
        return p_ts + TS_SIZE;
    p_payload = ts_payload(p_ts);
    if (p_payload >= p_ts + TS_SIZE)
        return p_ts + TS_SIZE;

    p_payload += *p_payload; /* pointer_field */
    p_payload++; /* skip pointer_field */
    if (p_payload > p_ts + TS_SIZE)
        return p_ts + TS_SIZE;
    return p_payload;
}

/*****************************************************************************
 * TS adaptation field (p_ts points to the sync byte)
 *****************************************************************************/
static inline void tsaf_set_discontinuity(uint8_t *p_ts)
{
    p_ts[5] |= 0x80;
}

static inline void tsaf_clear_discontinuity(uint8_t *p_ts)
{
    p_ts[5] &= ~0x80;
}

static inline bool tsaf_has_discontinuity(const uint8_t *p_ts)
{
    return !!(p_ts[5] & 0x80);
}

static inline void tsaf_set_randomaccess(uint8_t *p_ts)
{
    p_ts[5] |= 0x40;
}

static inline bool tsaf_has_randomaccess(const uint8_t *p_ts)
{
    return !!(p_ts[5] & 0x40);
}

static inline void tsaf_set_streampriority(uint8_t *p_ts)
{
    p_ts[5] |= 0x20;
}

static inline bool tsaf_has_streampriority(const uint8_t *p_ts)
{
    return !!(p_ts[5] & 0x20);
}

/** Sets PCR_flag and the 33-bit program_clock_reference_base (90 kHz).
 * The 6 reserved bits are set to 1 and the 9-bit extension is reset to 0;
 * call tsaf_set_pcrext() AFTER this function. */
static inline void tsaf_set_pcr(uint8_t *p_ts, uint64_t i_pcr)
{
    p_ts[5] |= 0x10;
    p_ts[6] = (i_pcr >> 25) & 0xff;
    p_ts[7] = (i_pcr >> 17) & 0xff;
    p_ts[8] = (i_pcr >> 9) & 0xff;
    p_ts[9] = (i_pcr >> 1) & 0xff;
    p_ts[10] = 0x7e | ((i_pcr << 7) & 0x80);
    p_ts[11] = 0;
}

/** Sets the 9-bit program_clock_reference_extension (27 MHz, 0..299). */
static inline void tsaf_set_pcrext(uint8_t *p_ts, uint16_t i_pcr_ext)
{
    p_ts[10] &= ~0x1;
    p_ts[10] |= (i_pcr_ext >> 8) & 0x1;
    p_ts[11] = i_pcr_ext & 0xff;
}

static inline bool tsaf_has_pcr(const uint8_t *p_ts)
{
    return !!(p_ts[5] & 0x10);
}

/** Returns the 33-bit program_clock_reference_base. */
static inline uint64_t tsaf_get_pcr(const uint8_t *p_ts)
{
    return ((uint64_t)p_ts[6] << 25) | ((uint64_t)p_ts[7] << 17) |
           ((uint64_t)p_ts[8] << 9) | ((uint64_t)p_ts[9] << 1) |
           ((uint64_t)p_ts[10] >> 7);
}

/** Returns the 9-bit program_clock_reference_extension. */
static inline uint64_t tsaf_get_pcrext(const uint8_t *p_ts)
{
    return (((uint64_t)p_ts[10] & 1) << 8) | (uint64_t)p_ts[11];
}

static inline bool tsaf_has_opcr(const uint8_t *p_ts)
{
    return !!(p_ts[5] & 0x08);
}

static inline bool tsaf_has_splicing_point(const uint8_t *p_ts)
{
    return !!(p_ts[5] & 0x04);
}

static inline bool tsaf_has_transport_private_data(const uint8_t *p_ts)
{
    return !!(p_ts[5] & 0x02);
}

static inline bool tsaf_has_adaptation_field_extension(const uint8_t *p_ts)
{
    return !!(p_ts[5] & 0x01);
}

/*****************************************************************************
 * TS payload gathering: continuity counter checks (2.4.3.3)
 *****************************************************************************/
/** True if the packet has the same continuity counter as the previous one
 * (legal exactly once for duplicate packets). */
static inline bool ts_check_duplicate(uint8_t i_cc, uint8_t i_last_cc)
{
    return i_last_cc == i_cc;
}

/** True if i_cc is not (i_last_cc + 1) mod 16. Both arguments must be in
 * 0..15. */
static inline bool ts_check_discontinuity(uint8_t i_cc, uint8_t i_last_cc)
{
    return (i_last_cc + 17 - i_cc) % 16;
}

#ifdef __cplusplus
}
#endif

#endif
