/*****************************************************************************
 * psi.h: (shim) ISO/IEC 13818-1 Program Specific Information
 *****************************************************************************
 * Umbrella header, like biTStream's. Only the generic section syntax is
 * provided by the shim (no PAT/PMT/descriptor helpers). See ../../README.md.
 *****************************************************************************/

#ifndef __BITSTREAM_MPEG_PSI_H__
#define __BITSTREAM_MPEG_PSI_H__

#include <bitstream/common.h>
#include <bitstream/mpeg/psi/psi.h>

#endif
