/*****************************************************************************
 * h264.h: (shim) ISO/IEC 14496-10 (ITU-T H.264) constants and NAL/avcC helpers
 *****************************************************************************
 * This is NOT the biTStream library. It is an independently written,
 * API-compatible subset (same names, same signatures, same byte offsets)
 * written from ISO/IEC 14496-10 (clause 7.3.1 / table 7-1 for NAL unit types,
 * 7.4.2.1.1 for SPS, 7.4.3 for slice types, annex D for SEI, annex E for VUI)
 * and ISO/IEC 14496-15 clause 5.2.4.1.1 (AVCDecoderConfigurationRecord).
 * See ../../README.md.
 *
 * Naming conventions (identical to biTStream):
 *  - h264nal_*(p) : p points to a 3-octet annex B start code (00 00 01)
 *                   followed by the NAL header octet at p[3];
 *  - h264nalst_*(b): b is the NAL header octet itself ("start" octet):
 *                   b7 forbidden_zero_bit, b6-5 nal_ref_idc,
 *                   b4-0 nal_unit_type.
 *****************************************************************************/

#ifndef __BITSTREAM_MPEG_H264_H__
#define __BITSTREAM_MPEG_H264_H__

#include <stdint.h>
#include <stdbool.h>
#include <stddef.h>   /* size_t */

#ifdef __cplusplus
extern "C"
{
#endif

/*****************************************************************************
 * H264 network abstraction layer (annex B)
 *****************************************************************************/
#define H264NAL_HEADER_SIZE         4   /* 3-octet start code + NAL header */

/* nal_unit_type, 14496-10 table 7-1 */
#define H264NAL_TYPE_NONIDR         1   /* slice of a non-IDR picture */
#define H264NAL_TYPE_PARTA          2   /* slice data partition A */
#define H264NAL_TYPE_PARTB          3   /* slice data partition B */
#define H264NAL_TYPE_PARTC          4   /* slice data partition C */
#define H264NAL_TYPE_IDR            5   /* slice of an IDR picture */
#define H264NAL_TYPE_SEI            6
#define H264NAL_TYPE_SPS            7
#define H264NAL_TYPE_PPS            8
#define H264NAL_TYPE_AUD            9   /* access unit delimiter */
#define H264NAL_TYPE_ENDSEQ         10  /* end of sequence */
#define H264NAL_TYPE_ENDSTR         11  /* end of stream */
#define H264NAL_TYPE_FILLER         12
#define H264NAL_TYPE_SPSX           13  /* SPS extension */
#define H264NAL_TYPE_PFX            14  /* prefix NAL unit */
#define H264NAL_TYPE_SSPS           15  /* subset SPS */
#define H264NAL_TYPE_DPS            16  /* depth parameter set */
#define H264NAL_TYPE_AUX            19  /* auxiliary coded picture slice */
#define H264NAL_TYPE_EXT            20  /* coded slice extension */
#define H264NAL_TYPE_3DEXT          21  /* coded slice ext. for depth/3D-AVC */

static inline void h264nal_init(uint8_t *p_h264nal)
{
    p_h264nal[0] = 0x0;
    p_h264nal[1] = 0x0;
    p_h264nal[2] = 0x1;
    p_h264nal[3] = 0;
}

static inline void h264nal_set_ref(uint8_t *p_h264nal, uint8_t ref)
{
    p_h264nal[3] &= 0x1f;
    p_h264nal[3] |= (ref & 0x3) << 5;
}

static inline uint8_t h264nal_get_ref(const uint8_t *p_h264nal)
{
    return (p_h264nal[3] & 0x60) >> 5;
}

static inline void h264nal_set_type(uint8_t *p_h264nal, uint8_t type)
{
    p_h264nal[3] &= 0xe0;
    p_h264nal[3] |= type & 0x1f;
}

static inline uint8_t h264nal_get_type(const uint8_t *p_h264nal)
{
    return p_h264nal[3] & 0x1f;
}

/** @param start NAL header octet; returns nal_ref_idc. */
static inline uint8_t h264nalst_get_ref(uint8_t start)
{
    return (start & 0x60) >> 5;
}

/** @param start NAL header octet; returns nal_unit_type. */
static inline uint8_t h264nalst_get_type(uint8_t start)
{
    return start & 0x1f;
}

/** True for nal_unit_type 1..5 (VCL NAL units, table 7-1). */
static inline bool h264naltype_is_vcl(uint8_t type)
{
    return type >= H264NAL_TYPE_NONIDR && type <= H264NAL_TYPE_IDR;
}

/*****************************************************************************
 * H264 supplemental enhancement information (annex D)
 *****************************************************************************/
#define H264SEI_HEADER_SIZE         4

/* payloadType, D.1 */
#define H264SEI_BUFFERING_PERIOD    0
#define H264SEI_PIC_TIMING          1
#define H264SEI_PAN_SCAN_RECT       2
#define H264SEI_FILLER_PAYLOAD      3
#define H264SEI_USER_T_T35          4
#define H264SEI_USER_UNREGISTERED   5
#define H264SEI_RECOVERY_POINT      6

/* pic_struct, table D-1 */
#define H264SEI_STRUCT_FRAME        0
#define H264SEI_STRUCT_TOP          1
#define H264SEI_STRUCT_BOT          2
#define H264SEI_STRUCT_TOP_BOT      3
#define H264SEI_STRUCT_BOT_TOP      4
#define H264SEI_STRUCT_TOP_BOT_TOP  5
#define H264SEI_STRUCT_BOT_TOP_BOT  6
#define H264SEI_STRUCT_DOUBLE       7
#define H264SEI_STRUCT_TRIPLE       8

/*****************************************************************************
 * H264 sequence parameter set (7.3.2.1.1)
 *****************************************************************************/
/* 3-octet start code + NAL header + profile_idc + constraint flags +
 * level_idc: seq_parameter_set_id (ue(v)) starts at this offset. */
#define H264SPS_HEADER_SIZE         7
#define H264SPS_ID_MAX              32  /* seq_parameter_set_id in 0..31 */

/* chroma_format_idc, table 6-1 */
#define H264SPS_CHROMA_MONO         0
#define H264SPS_CHROMA_420          1
#define H264SPS_CHROMA_422          2
#define H264SPS_CHROMA_444          3

/* aspect_ratio_idc Extended_SAR, table E-1 */
#define H264VUI_AR_EXTENDED         255

static inline void h264sps_init(uint8_t *p_h264sps)
{
    h264nal_init(p_h264sps);
    h264nal_set_ref(p_h264sps, 1);
    h264nal_set_type(p_h264sps, H264NAL_TYPE_SPS);
    p_h264sps[5] = 0x0;
}

static inline void h264sps_set_profile(uint8_t *p_h264sps, uint8_t i_profile)
{
    p_h264sps[4] = i_profile;
}

static inline uint8_t h264sps_get_profile(const uint8_t *p_h264sps)
{
    return p_h264sps[4];
}

static inline void h264sps_set_level(uint8_t *p_h264sps, uint8_t i_level)
{
    p_h264sps[6] = i_level;
}

static inline uint8_t h264sps_get_level(const uint8_t *p_h264sps)
{
    return p_h264sps[6];
}

/*****************************************************************************
 * H264 picture parameter set (7.3.2.2)
 *****************************************************************************/
#define H264PPS_HEADER_SIZE         4
#define H264PPS_ID_MAX              256 /* pic_parameter_set_id in 0..255 */

/*****************************************************************************
 * H264 slice (7.4.3, table 7-6; values 5..9 are the same types modulo 5)
 *****************************************************************************/
#define H264SLI_TYPE_P              0
#define H264SLI_TYPE_B              1
#define H264SLI_TYPE_I              2
#define H264SLI_TYPE_SP             3
#define H264SLI_TYPE_SI             4

/*****************************************************************************
 * H264 avcC structure: AVCDecoderConfigurationRecord, 14496-15 5.2.4.1.1
 *****************************************************************************
 *   [0]      configurationVersion = 1
 *   [1]      AVCProfileIndication
 *   [2]      profile_compatibility
 *   [3]      AVCLevelIndication
 *   [4]      reserved '111111' | lengthSizeMinusOne (2)
 *   [5]      reserved '111' | numOfSequenceParameterSets (5)
 *   { sequenceParameterSetLength (16), sequenceParameterSetNALUnit } * n
 *   [x]      numOfPictureParameterSets (8)
 *   { pictureParameterSetLength (16), pictureParameterSetNALUnit } * n
 * (the optional high-profile trailer is neither written nor required.)
 *****************************************************************************/
#define H264AVCC_HEADER             6
#define H264AVCC_HEADER2            1
#define H264AVCC_SPS_HEADER         2
#define H264AVCC_PPS_HEADER         2

static inline void h264avcc_init(uint8_t *p)
{
    p[0] = 1; /* version */
    p[1] = 0;
    p[2] = 0;
    p[3] = 0;
    p[4] = 0xfc;
    p[5] = 0xe0;
}

static inline void h264avcc_set_profile(uint8_t *p, uint8_t val)
{
    p[1] = val;
}

static inline uint8_t h264avcc_get_profile(const uint8_t *p)
{
    return p[1];
}

static inline void h264avcc_set_profile_compatibility(uint8_t *p, uint8_t val)
{
    p[2] = val;
}

static inline uint8_t h264avcc_get_profile_compatibility(const uint8_t *p)
{
    return p[2];
}

static inline void h264avcc_set_level(uint8_t *p, uint8_t val)
{
    p[3] = val;
}

static inline uint8_t h264avcc_get_level(const uint8_t *p)
{
    return p[3];
}

static inline void h264avcc_set_length_size_1(uint8_t *p, uint8_t val)
{
    p[4] = 0xfc | (val & 0x3);
}

static inline uint8_t h264avcc_get_length_size_1(const uint8_t *p)
{
    return p[4] & 0x3;
}

static inline void h264avcc_set_nb_sps(uint8_t *p, uint8_t val)
{
    p[5] = 0xe0 | (val & 0x1f);
}

static inline uint8_t h264avcc_get_nb_sps(const uint8_t *p)
{
    return p[5] & 0x1f;
}

/* p points to a { length, SPS } entry */
static inline void h264avcc_spsh_set_length(uint8_t *p, uint16_t val)
{
    p[0] = val >> 8;
    p[1] = val & 0xff;
}

static inline uint16_t h264avcc_spsh_get_length(const uint8_t *p)
{
    return (p[0] << 8) | p[1];
}

static inline uint8_t *h264avcc_spsh_get_sps(const uint8_t *p)
{
    return (uint8_t *)p + H264AVCC_SPS_HEADER;
}

/** Returns the n-th { length, SPS } entry; n == nb_sps yields the position of
 * numOfPictureParameterSets. Walks the previous entries, whose lengths must
 * already be set. No bounds checking (call h264avcc_validate() first). */
static inline uint8_t *h264avcc_get_spsh(const uint8_t *p, uint8_t n)
{
    p += H264AVCC_HEADER;
    while (n) {
        uint16_t length = h264avcc_spsh_get_length(p);
        p += H264AVCC_SPS_HEADER + length;
        n--;
    }
    return (uint8_t *)p;
}

/** All SPS entries must have been written before calling this. */
static inline void h264avcc_set_nb_pps(uint8_t *p, uint8_t val)
{
    p = h264avcc_get_spsh(p, h264avcc_get_nb_sps(p));
    p[0] = val;
}

static inline uint8_t h264avcc_get_nb_pps(const uint8_t *p)
{
    p = h264avcc_get_spsh(p, h264avcc_get_nb_sps(p));
    return p[0];
}

/* p points to a { length, PPS } entry */
static inline void h264avcc_ppsh_set_length(uint8_t *p, uint16_t val)
{
    p[0] = val >> 8;
    p[1] = val & 0xff;
}

static inline uint16_t h264avcc_ppsh_get_length(const uint8_t *p)
{
    return (p[0] << 8) | p[1];
}

static inline uint8_t *h264avcc_ppsh_get_pps(const uint8_t *p)
{
    return (uint8_t *)p + H264AVCC_PPS_HEADER;
}

/** Returns the n-th { length, PPS } entry; n == nb_pps yields the end of the
 * structure. No bounds checking (call h264avcc_validate() first). */
static inline uint8_t *h264avcc_get_ppsh(const uint8_t *p, uint8_t n)
{
    p = h264avcc_get_spsh(p, h264avcc_get_nb_sps(p));
    p += H264AVCC_HEADER2;
    while (n) {
        uint16_t length = h264avcc_ppsh_get_length(p);
        p += H264AVCC_PPS_HEADER + length;
        n--;
    }
    return (uint8_t *)p;
}

/** Checks configurationVersion == 1 and that every header and parameter set
 * announced lies within the size octets of the buffer. Trailing octets are
 * allowed (high-profile extension). */
static inline bool h264avcc_validate(const uint8_t *p, size_t size)
{
    size_t offset = H264AVCC_HEADER;
    uint8_t nb;

    if (size < H264AVCC_HEADER + H264AVCC_HEADER2)
        return false;
    if (p[0] != 1)
        return false;

    nb = h264avcc_get_nb_sps(p);
    while (nb) {
        if (offset + H264AVCC_SPS_HEADER > size)
            return false;
        offset += H264AVCC_SPS_HEADER + h264avcc_spsh_get_length(p + offset);
        if (offset > size)
            return false;
        nb--;
    }

    if (offset + H264AVCC_HEADER2 > size)
        return false;
    nb = p[offset];
    offset += H264AVCC_HEADER2;
    while (nb) {
        if (offset + H264AVCC_PPS_HEADER > size)
            return false;
        offset += H264AVCC_PPS_HEADER + h264avcc_ppsh_get_length(p + offset);
        if (offset > size)
            return false;
        nb--;
    }
    return true;
}

#ifdef __cplusplus
}
#endif

#endif
