/*****************************************************************************
 * psi.h: (shim) ISO/IEC 13818-1 generic PSI section accessors
 *****************************************************************************
 * This is NOT the biTStream library. It is an independently written,
 * API-compatible subset (same names, same signatures, same byte offsets)
 * written from ISO/IEC 13818-1 (ITU-T H.222.0) clause 2.4.4.10/2.4.4.11
 * (private_section syntax, table 2-35), and annex A (CRC_32).
 * See ../../../README.md.
 *
 * Section layout:
 *   [0]      table_id
 *   [1] b7   section_syntax_indicator
 *       b6   private_indicator ('0' for PAT/PMT/CAT)
 *       b5-4 reserved ('11')
 *       b3-0 section_length (4 msb)
 *   [2]      section_length (8 lsb) = number of octets following [2]
 *   -- if section_syntax_indicator == 1 ("syntax1") --
 *   [3..4]   table_id_extension
 *   [5] b7-6 reserved ('11')
 *       b5-1 version_number
 *       b0   current_next_indicator
 *   [6]      section_number
 *   [7]      last_section_number
 *   ...
 *   [last 4] CRC_32
 *****************************************************************************/

#ifndef __BITSTREAM_MPEG_PSI_PSI_H__
#define __BITSTREAM_MPEG_PSI_PSI_H__

#include <stdlib.h>   /* malloc */
#include <stdint.h>
#include <stdbool.h>
#include <string.h>

#ifdef __cplusplus
extern "C"
{
#endif

/*****************************************************************************
 * PSI section
 *****************************************************************************/
#define PSI_HEADER_SIZE         3
#define PSI_HEADER_SIZE_SYNTAX1 8
#define PSI_CRC_SIZE            4
/* maximum section_length for PAT/PMT/CAT (2.4.4.3: shall not exceed 1021) */
#define PSI_MAX_SIZE            1021
/* maximum section_length for private sections (2.4.4.11: 4093) */
#define PSI_PRIVATE_MAX_SIZE    4093

#define PSI_TABLE_MAX_SECTIONS  256

#define PSI_DECLARE(p_table)    \
    uint8_t p_table[PSI_MAX_SIZE + PSI_HEADER_SIZE]
#define PSI_PRIVATE_DECLARE(p_table)    \
    uint8_t p_table[PSI_PRIVATE_MAX_SIZE + PSI_HEADER_SIZE]

static inline uint8_t *psi_allocate(void)
{
    return (uint8_t *)malloc((PSI_MAX_SIZE + PSI_HEADER_SIZE) *
                             sizeof(uint8_t));
}

static inline uint8_t *psi_private_allocate(void)
{
    return (uint8_t *)malloc((PSI_PRIVATE_MAX_SIZE + PSI_HEADER_SIZE) *
                             sizeof(uint8_t));
}

static inline void psi_set_tableid(uint8_t *p_section, uint8_t i_table_id)
{
    p_section[0] = i_table_id;
}

static inline uint8_t psi_get_tableid(const uint8_t *p_section)
{
    return p_section[0];
}

static inline void psi_set_syntax(uint8_t *p_section)
{
    p_section[1] |= 0x80;
}

static inline bool psi_get_syntax(const uint8_t *p_section)
{
    return !!(p_section[1] & 0x80);
}

/** Initializes octet 1 (reserved bits set, private_indicator set, length
 * msbs cleared) and, if b_syntax, sets section_syntax_indicator and
 * initializes octet 5 (reserved bits set, version 0, current_next 0).
 * Does not touch table_id, the length lsbs nor any other octet. */
static inline void psi_init(uint8_t *p_section, bool b_syntax)
{
    /* set reserved bits */
    p_section[1] = 0x70;
    if (b_syntax) {
        psi_set_syntax(p_section);
        p_section[5] = 0xc0;
    }
}

/** Sets the 12-bit section_length (octets following the 3-octet header). */
static inline void psi_set_length(uint8_t *p_section, uint16_t i_length)
{
    p_section[1] &= ~0xf;
    p_section[1] |= (i_length >> 8) & 0xf;
    p_section[2] = i_length & 0xff;
}

static inline uint16_t psi_get_length(const uint8_t *p_section)
{
    return ((p_section[1] & 0xf) << 8) | p_section[2];
}

static inline void psi_set_tableidext(uint8_t *p_section,
                                      uint16_t i_table_id_ext)
{
    p_section[3] = i_table_id_ext >> 8;
    p_section[4] = i_table_id_ext & 0xff;
}

static inline uint16_t psi_get_tableidext(const uint8_t *p_section)
{
    return (p_section[3] << 8) | p_section[4];
}

static inline void psi_set_version(uint8_t *p_section, uint8_t i_version)
{
    p_section[5] &= ~0x3e;
    p_section[5] |= 0xc0 | ((i_version << 1) & 0x3e);
}

static inline uint8_t psi_get_version(const uint8_t *p_section)
{
    return (p_section[5] & 0x3e) >> 1;
}

static inline void psi_set_current(uint8_t *p_section)
{
    p_section[5] |= 0x1;
}

static inline bool psi_get_current(const uint8_t *p_section)
{
    return !!(p_section[5] & 0x1);
}

static inline void psi_set_section(uint8_t *p_section, uint8_t i_section)
{
    p_section[6] = i_section;
}

static inline uint8_t psi_get_section(const uint8_t *p_section)
{
    return p_section[6];
}

static inline void psi_set_lastsection(uint8_t *p_section,
                                       uint8_t i_last_section)
{
    p_section[7] = i_last_section;
}

static inline uint8_t psi_get_lastsection(const uint8_t *p_section)
{
    return p_section[7];
}

/*****************************************************************************
 * CRC_32 (13818-1 annex A): polynomial 0x04c11db7, initial value 0xffffffff,
 * msb first, no reflection, no final xor. Bitwise (table-less) on purpose.
 *****************************************************************************/
static inline uint32_t psi_shim_crc32(const uint8_t *p, size_t i_size)
{
    uint32_t i_crc = 0xffffffff;
    while (i_size--) {
        int i;
        i_crc ^= (uint32_t)*p++ << 24;
        for (i = 0; i < 8; i++)
            i_crc = (i_crc & 0x80000000) ? (i_crc << 1) ^ 0x04c11db7
                                         : (i_crc << 1);
    }
    return i_crc;
}

/** Computes and writes CRC_32 in the last 4 octets of the section (the
 * section length must already include them). */
static inline void psi_set_crc(uint8_t *p_section)
{
    uint16_t i_end = psi_get_length(p_section) + PSI_HEADER_SIZE -
                     PSI_CRC_SIZE;
    uint32_t i_crc = psi_shim_crc32(p_section, i_end);

    p_section[i_end] = i_crc >> 24;
    p_section[i_end + 1] = (i_crc >> 16) & 0xff;
    p_section[i_end + 2] = (i_crc >> 8) & 0xff;
    p_section[i_end + 3] = i_crc & 0xff;
}

/** Returns true if the last 4 octets of the section match CRC_32. */
static inline bool psi_check_crc(const uint8_t *p_section)
{
    uint16_t i_end = psi_get_length(p_section) + PSI_HEADER_SIZE -
                     PSI_CRC_SIZE;
    uint32_t i_crc = psi_shim_crc32(p_section, i_end);

    return p_section[i_end] == (i_crc >> 24)
            && p_section[i_end + 1] == ((i_crc >> 16) & 0xff)
            && p_section[i_end + 2] == ((i_crc >> 8) & 0xff)
            && p_section[i_end + 3] == (i_crc & 0xff);
}

/** Minimal sanity check, reading ONLY the 3-octet header: a section with
 * section_syntax_indicator must be long enough to hold the syntax1 header and
 * the CRC. The CRC is NOT checked here (use psi_check_crc()). */
static inline bool psi_validate(const uint8_t *p_section)
{
    if (psi_get_syntax(p_section)
         && (psi_get_length(p_section) < PSI_HEADER_SIZE_SYNTAX1
                                          - PSI_HEADER_SIZE + PSI_CRC_SIZE))
        return false;

    /* only do the CRC check when it is strictly necessary */

    return true;
}

/** Compares two sections (header + payload as per section_length). */
static inline bool psi_compare(const uint8_t *p_section1,
                               const uint8_t *p_section2)
{
    return psi_get_length(p_section1) == psi_get_length(p_section2)
        && !memcmp(p_section1, p_section2,
                   psi_get_length(p_section1) + PSI_HEADER_SIZE);
}

#ifdef __cplusplus
}
#endif

#endif
