/*****************************************************************************
 * pes.h: (shim) ISO/IEC 13818-1 Packetized Elementary Stream accessors
 *****************************************************************************
 * This is NOT the biTStream library. It is an independently written,
 * API-compatible subset (same names, same signatures, same byte offsets)
 * written from ISO/IEC 13818-1 (ITU-T H.222.0) clause 2.4.3.6/2.4.3.7
 * (PES packet, table 2-21, stream_id table 2-22). See ../../README.md.
 *
 * p_pes always points to the first octet of packet_start_code_prefix, even
 * for the pes_*_pts/dts() functions.
 *
 * PES packet layout (2.4.3.6):
 *   [0..2]  packet_start_code_prefix = 0x000001
 *   [3]     stream_id
 *   [4..5]  PES_packet_length (number of octets following [5]; 0 = unbounded,
 *           only allowed for video in TS)
 *   -- optional header (not for PSM, padding, private_2, ECM, EMM, PSD,
 *      DSMCC, H.222.1 type E) --
 *   [6] b7-6 '10'
 *       b5-4 PES_scrambling_control
 *       b3   PES_priority
 *       b2   data_alignment_indicator
 *       b1   copyright
 *       b0   original_or_copy
 *   [7] b7-6 PTS_DTS_flags ('00' none, '10' PTS, '11' PTS+DTS, '01' forbidden)
 *       b5   ESCR_flag  b4 ES_rate_flag  b3 DSM_trick_mode_flag
 *       b2   additional_copy_info_flag  b1 PES_CRC_flag  b0 PES_extension_flag
 *   [8]     PES_header_data_length
 *   [9..13] PTS: '0010' or '0011', PTS[32..30], marker, PTS[29..15], marker,
 *           PTS[14..0], marker
 *   [14..18] DTS: '0001', DTS[32..30], marker, DTS[29..15], marker,
 *           DTS[14..0], marker
 *****************************************************************************/

#ifndef __BITSTREAM_MPEG_PES_H__
#define __BITSTREAM_MPEG_PES_H__

#include <stdint.h>
#include <stdbool.h>
#include <string.h>   /* memset */

#ifdef __cplusplus
extern "C"
{
#endif

/*****************************************************************************
 * PES header
 *****************************************************************************/
#define PES_HEADER_SIZE             6   /* start code, stream_id, length */
#define PES_HEADER_SIZE_NOPTS       9   /* + flags and header_data_length */
#define PES_HEADER_SIZE_PTS         14  /* + PTS */
#define PES_HEADER_SIZE_PTSDTS      19  /* + PTS + DTS */
#define PES_HEADER_OPTIONAL_SIZE    (PES_HEADER_SIZE_NOPTS - PES_HEADER_SIZE)
#define PES_HEADER_TS_SIZE          5   /* size of one PTS or DTS field */

/* stream_id assignments, table 2-22 */
#define PES_STREAM_ID_MIN           0xbc
#define PES_STREAM_ID_PSM           0xbc    /* program_stream_map */
#define PES_STREAM_ID_PRIVATE_1     0xbd
#define PES_STREAM_ID_PADDING       0xbe
#define PES_STREAM_ID_PRIVATE_2     0xbf
#define PES_STREAM_ID_AUDIO_MPEG    0xc0    /* 110x xxxx */
#define PES_STREAM_ID_VIDEO_MPEG    0xe0    /* 1110 xxxx */
#define PES_STREAM_ID_ECM           0xf0
#define PES_STREAM_ID_EMM           0xf1
#define PES_STREAM_ID_DSMCC         0xf2
#define PES_STREAM_ID_MHEG          0xf3    /* ISO/IEC 13522 */
#define PES_STREAM_ID_H222_1_A      0xf4
#define PES_STREAM_ID_H222_1_B      0xf5
#define PES_STREAM_ID_H222_1_C      0xf6
#define PES_STREAM_ID_H222_1_D      0xf7
#define PES_STREAM_ID_H222_1_E      0xf8
#define PES_STREAM_ID_ANCILLARY     0xf9
#define PES_STREAM_ID_SL            0xfa    /* ISO/IEC 14496-1 SL-packetized */
#define PES_STREAM_ID_FLEXMUX       0xfb    /* ISO/IEC 14496-1 FlexMux */
#define PES_STREAM_ID_METADATA      0xfc
#define PES_STREAM_ID_EXTENDED      0xfd
#define PES_STREAM_ID_RESERVED      0xfe
#define PES_STREAM_ID_PSD           0xff    /* program_stream_directory */

/** Writes packet_start_code_prefix only. */
static inline void pes_init(uint8_t *p_pes)
{
    p_pes[0] = 0x0;
    p_pes[1] = 0x0;
    p_pes[2] = 0x1;
}

static inline void pes_set_streamid(uint8_t *p_pes, uint8_t i_stream_id)
{
    p_pes[3] = i_stream_id;
}

static inline uint8_t pes_get_streamid(const uint8_t *p_pes)
{
    return p_pes[3];
}

/** Sets PES_packet_length (number of octets after the 6-octet header). */
static inline void pes_set_length(uint8_t *p_pes, uint16_t i_length)
{
    p_pes[4] = i_length >> 8;
    p_pes[5] = i_length & 0xff;
}

static inline uint16_t pes_get_length(const uint8_t *p_pes)
{
    return (p_pes[4] << 8) | p_pes[5];
}

/** Initializes the optional PES header: marker '10', all flags cleared,
 * PES_header_data_length = i_length, and the i_length following octets filled
 * with 0xff stuffing. Must be called BEFORE pes_set_dataalignment(),
 * pes_set_pts() and pes_set_dts(), as it resets the flags. */
static inline void pes_set_headerlength(uint8_t *p_pes, uint8_t i_length)
{
    p_pes[6] = 0x80;
    p_pes[7] = 0x0;
    p_pes[8] = i_length;
    if (i_length > 0)
        memset(&p_pes[9], 0xff, i_length); /* stuffing */
}

static inline uint8_t pes_get_headerlength(const uint8_t *p_pes)
{
    return p_pes[8];
}

static inline void pes_set_dataalignment(uint8_t *p_pes)
{
    p_pes[6] |= 0x4;
}

static inline bool pes_get_dataalignment(const uint8_t *p_pes)
{
    return !!(p_pes[6] & 0x4);
}

static inline uint8_t pes_get_scrambling(const uint8_t *p_pes)
{
    return (p_pes[6] & 0x30) >> 4;
}

static inline bool pes_has_pts(const uint8_t *p_pes)
{
    return !!(p_pes[7] & 0x80);
}

static inline bool pes_has_dts(const uint8_t *p_pes)
{
    return (p_pes[7] & 0xc0) == 0xc0;
}

/** Checks start code prefix and that stream_id is in the PES range. Only
 * reads the first 4 octets. */
static inline bool pes_validate(const uint8_t *p_pes)
{
    return (p_pes[0] == 0x0 && p_pes[1] == 0x0 && p_pes[2] == 0x1
             && p_pes[3] >= PES_STREAM_ID_MIN);
}

/** Checks the '10' marker and that PTS_DTS_flags is not the forbidden '01'.
 * Only reads octets 6 and 7. */
static inline bool pes_validate_header(const uint8_t *p_pes)
{
    return ((p_pes[6] & 0xc0) == 0x80)
            && ((p_pes[7] & 0xc0) != 0x40);
}

/** Sets PTS_DTS_flags msb and writes the 33-bit PTS field (octets 9..13).
 * PES_header_data_length is raised to 5 if it was smaller.
 *
 * The 4-bit prefix is written as '0010' if pes_set_dts() has not been called
 * yet, '0011' otherwise; pes_set_dts() later upgrades it to '0011'.
 * (See README: real biTStream is believed to keep bit 0x10 of whatever was in
 * octet 9, which after pes_set_headerlength() stuffing would yield '0011'
 * even without DTS. Define BITSTREAM_SHIM_PES_PTS_KEEP_BIT4 to get that.) */
static inline void pes_set_pts(uint8_t *p_pes, uint64_t i_pts)
{
    p_pes[7] |= 0x80;
    if (p_pes[8] < 5)
        p_pes[8] = 5;
#ifdef BITSTREAM_SHIM_PES_PTS_KEEP_BIT4
    p_pes[9] &= 0x10;
#else
    p_pes[9] = (p_pes[7] & 0x40) ? 0x10 : 0x0;
#endif
    p_pes[9] |= 0x21 | ((i_pts >> 29) & 0xe);
    p_pes[10] = (i_pts >> 22) & 0xff;
    p_pes[11] = 0x01 | ((i_pts >> 14) & 0xfe);
    p_pes[12] = (i_pts >> 7) & 0xff;
    p_pes[13] = 0x01 | ((i_pts << 1) & 0xfe);
}

/** Checks the PTS prefix ('0010' or '0011') and the three marker bits. */
static inline bool pes_validate_pts(const uint8_t *p_pes)
{
    return ((p_pes[9] & 0xe1) == 0x21)
            && (p_pes[11] & 0x1) && (p_pes[13] & 0x1);
}

static inline uint64_t pes_get_pts(const uint8_t *p_pes)
{
    return (((uint64_t)p_pes[9] & 0xe) << 29) | ((uint64_t)p_pes[10] << 22) |
           (((uint64_t)p_pes[11] & 0xfe) << 14) | ((uint64_t)p_pes[12] << 7) |
           (((uint64_t)p_pes[13] & 0xfe) >> 1);
}

/** Sets PTS_DTS_flags lsb, upgrades the PTS prefix to '0011' and writes the
 * 33-bit DTS field (octets 14..18). PES_header_data_length is raised to 10 if
 * it was smaller. pes_set_pts() must also be called ('01' is forbidden). */
static inline void pes_set_dts(uint8_t *p_pes, uint64_t i_dts)
{
    p_pes[7] |= 0x40;
    if (p_pes[8] < 10)
        p_pes[8] = 10;
    p_pes[9] |= 0x10;
    p_pes[14] = 0x11 | ((i_dts >> 29) & 0xe);
    p_pes[15] = (i_dts >> 22) & 0xff;
    p_pes[16] = 0x01 | ((i_dts >> 14) & 0xfe);
    p_pes[17] = (i_dts >> 7) & 0xff;
    p_pes[18] = 0x01 | ((i_dts << 1) & 0xfe);
}

/** Checks the PTS prefix is '0011', the DTS prefix '0001' and the three DTS
 * marker bits. */
static inline bool pes_validate_dts(const uint8_t *p_pes)
{
    return (p_pes[9] & 0x10) && ((p_pes[14] & 0xf1) == 0x11)
            && (p_pes[16] & 0x1) && (p_pes[18] & 0x1);
}

static inline uint64_t pes_get_dts(const uint8_t *p_pes)
{
    return (((uint64_t)p_pes[14] & 0xe) << 29) | ((uint64_t)p_pes[15] << 22) |
           (((uint64_t)p_pes[16] & 0xfe) << 14) | ((uint64_t)p_pes[17] << 7) |
           (((uint64_t)p_pes[18] & 0xfe) >> 1);
}

/** Returns a pointer to the first payload octet of a PES packet that has the
 * optional header. */
static inline uint8_t *pes_payload(uint8_t *p_pes)
{
    return p_pes + PES_HEADER_SIZE + PES_HEADER_OPTIONAL_SIZE +
           pes_get_headerlength(p_pes);
}

#ifdef __cplusplus
}
#endif

#endif
