/*****************************************************************************
 * common.h: (shim) declarations shared by all biTStream-compatible headers
 *****************************************************************************
 * This is NOT the biTStream library. It is an independently written,
 * API-compatible subset used to build Upipe's TS modules and H.26x framers
 * in a sandbox where biTStream is not available. See ../README.md.
 *****************************************************************************/

#ifndef __BITSTREAM_COMMON_H__
#define __BITSTREAM_COMMON_H__

#include <stdlib.h>
#include <stdint.h>
#include <stdbool.h>
#include <stddef.h>
#include <string.h>

/** Defined so that code can detect it is built against the shim. */
#define BITSTREAM_SHIM 1

#ifdef __cplusplus
extern "C"
{
#endif

/* Printing helpers types (biTStream API; unused by the verified modules). */
typedef enum print_type_t {
    PRINT_TEXT,
    PRINT_XML
} print_type_t;

typedef void (*f_print)(void *, const char *, ...)
    __attribute__ ((format(printf, 2, 3)));
typedef char *(*f_iconv)(void *, const char *, char *, size_t);

#ifdef __cplusplus
}
#endif

#endif
