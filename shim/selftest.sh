#!/bin/sh
# Self-test of the biTStream shim (/verif/shim/bitstream).
#
# Rebuilds, from the CURRENT working tree of the Upipe checkout, the TS
# modules and H.26x framers that depend on biTStream, against the shim, then
# builds and runs Upipe's own unit tests for them, plus the shim's
# golden-vector test. Prints one "PASS <name>" / "FAIL <name>" line per test
# and exits 0 only if everything passed.
#
# Usage: selftest.sh      (the tail of the log of failed steps goes to stderr;
#                          full logs are kept in $OUT/log)
# Environment:
#   REPO   Upipe checkout            (default /repo)
#   OUT    build directory           (default /verif/build/shimtest)
#   CC     compiler                  (default clang)
#   CFLAGS extra compiler flags      (default "-g -O1")
#   JOBS   parallel compile jobs     (default 16)
#
# Nothing is written outside $OUT.

set -u

SHIM=$(cd "$(dirname "$0")" && pwd)
REPO=${REPO:-/repo}
OUT=${OUT:-$(cd "$SHIM/.." && pwd)/build/shimtest}
CC=${CC:-clang}
CFLAGS=${CFLAGS:--g -O1}
JOBS=${JOBS:-16}

TS_SRCS="upipe_ts_sync upipe_ts_check upipe_ts_align upipe_ts_decaps
         upipe_ts_encaps upipe_ts_pes_encaps upipe_ts_pes_decaps
         upipe_ts_split upipe_ts_pid_filter upipe_ts_psi_merge
         upipe_ts_psi_split upipe_ts_psi_join"
FRAMERS_SRCS="upipe_h26x_common upipe_h264_framer upipe_h265_framer
              upipe_framers_common"
# upipe_ts_align.c instantiates an idem pipe
MODULES_SRCS="upipe_idem"
TESTS="upipe_ts_sync_test upipe_ts_check_test upipe_ts_decaps_test
       upipe_ts_split_test upipe_ts_pid_filter_test upipe_ts_psi_merge_test
       upipe_ts_psi_split_test upipe_ts_psi_join_test
       upipe_ts_pes_decaps_test upipe_ts_pes_encaps_test
       upipe_ts_encaps_test upipe_h264_framer_test"

INCLUDES="-I$SHIM -I$REPO/include -I$REPO"

rm -rf "$OUT"
mkdir -p "$OUT/obj/core" "$OUT/obj/mods" "$OUT/obj/ts" "$OUT/obj/framers" \
         "$OUT/obj/tests" "$OUT/bin" "$OUT/log" || exit 2

# --- 1. compile everything in parallel -------------------------------------
# job list: "<source> <object>" per line
JOBLIST="$OUT/jobs.txt"
: > "$JOBLIST"
for f in "$REPO"/lib/upipe/*.c; do
    echo "$f $OUT/obj/core/$(basename "$f" .c).o" >> "$JOBLIST"
done
for n in $MODULES_SRCS; do
    echo "$REPO/lib/upipe-modules/$n.c $OUT/obj/mods/$n.o" >> "$JOBLIST"
done
for n in $TS_SRCS; do
    echo "$REPO/lib/upipe-ts/$n.c $OUT/obj/ts/$n.o" >> "$JOBLIST"
done
echo "$SHIM/stubs/upipe_ts_mux_str.c $OUT/obj/ts/upipe_ts_mux_str_stub.o" \
    >> "$JOBLIST"
for n in $FRAMERS_SRCS; do
    echo "$REPO/lib/upipe-framers/$n.c $OUT/obj/framers/$n.o" >> "$JOBLIST"
done
for n in $TESTS; do
    echo "$REPO/tests/$n.c $OUT/obj/tests/$n.o" >> "$JOBLIST"
done
echo "$SHIM/shim_vectors_test.c $OUT/obj/tests/shim_vectors.o" >> "$JOBLIST"

export CC CFLAGS INCLUDES OUT REPO
# shellcheck disable=SC2016
xargs -P "$JOBS" -L 1 sh -c '
    src=$0; obj=$1
    log="$OUT/log/cc_$(basename "$obj" .o).log"
    if ! $CC $CFLAGS $INCLUDES -I"$REPO/tests" -c "$src" -o "$obj" \
            > "$log" 2>&1; then
        echo "$src" >> "$OUT/cc_failed.txt"
    fi' < "$JOBLIST"

if [ -s "$OUT/cc_failed.txt" ]; then
    echo "compilation failed for:" >&2
    sort "$OUT/cc_failed.txt" | while read -r src; do
        echo "  $src" >&2
        grep -m 5 "error" "$OUT/log/cc_$(basename "$src" .c).log" >&2
    done
fi

# --- 2. archives (the linker then only pulls what each test needs) ---------
rm -f "$OUT"/*.a
ar rcs "$OUT/libupipe.a" "$OUT"/obj/core/*.o 2>/dev/null
ar rcs "$OUT/libupipe_modules.a" "$OUT"/obj/mods/*.o 2>/dev/null
ar rcs "$OUT/libupipe_ts.a" "$OUT"/obj/ts/*.o 2>/dev/null
ar rcs "$OUT/libupipe_framers.a" "$OUT"/obj/framers/*.o 2>/dev/null
LIBS="$OUT/libupipe_ts.a $OUT/libupipe_framers.a $OUT/libupipe_modules.a
      $OUT/libupipe.a -lpthread -lm"

# --- 3. link and run --------------------------------------------------------
fail=0
run_test() {
    name=$1
    obj="$OUT/obj/tests/$name.o"
    bin="$OUT/bin/$name"
    log="$OUT/log/run_$name.log"
    ok=1
    if [ ! -f "$obj" ]; then
        ok=0
        echo "no object (compilation failed)" > "$log"
    elif ! $CC $CFLAGS -o "$bin" "$obj" $LIBS > "$OUT/log/ld_$name.log" 2>&1
    then
        ok=0
        cp "$OUT/log/ld_$name.log" "$log"
    elif ! (cd "$OUT/bin" && "$bin") > "$log" 2>&1; then
        ok=0
    fi
    if [ $ok = 1 ]; then
        echo "PASS $name"
    else
        echo "FAIL $name"
        tail -n 5 "$log" | sed 's/^/    /' >&2
        fail=1
    fi
}

for n in shim_vectors $TESTS; do
    run_test "$n"
done

exit $fail
