/*
 * Link-time stub for lib/upipe-ts/upipe_ts_encaps.c.
 *
 * upipe_ts_encaps.c chains its command/event description strings to
 * upipe_ts_mux_command_str() / upipe_ts_mux_event_str(), which are defined in
 * lib/upipe-ts/upipe_ts_mux.c. That file needs large parts of biTStream
 * (dvb/si.h, PSI tables and descriptors) that the shim does not provide, and
 * drags in a dozen other pipes. These two functions only map enum values to
 * human-readable names for log messages; returning NULL ("no description")
 * is what upipe_ts_mux itself does for unknown values, and callers
 * (upipe_command_str()/uprobe_event_str()) handle NULL.
 *
 * This has nothing to do with biTStream; it lives here only because the shim
 * self-test (and any harness linking upipe_ts_encaps.c without upipe_ts_mux.c)
 * needs it.
 */

#include <stddef.h>

const char *upipe_ts_mux_command_str(int cmd);
const char *upipe_ts_mux_event_str(int event);

const char *upipe_ts_mux_command_str(int cmd)
{
    (void)cmd;
    return NULL;
}

const char *upipe_ts_mux_event_str(int event)
{
    (void)event;
    return NULL;
}
