# /verif — model-checking machinery for Upipe
.PHONY: setup manifest clean shim-selftest
setup:
	mkdir -p build evidence replays
	./check --build-all
manifest:
	python3 tools/gen_manifest.py
shim-selftest:
	sh shim/selftest.sh
clean:
	rm -rf build
