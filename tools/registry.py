"""Registry of harness builds and per-property jobs for /verif/check."""

R = "@REPO@/lib/upipe/"
M = "@REPO@/lib/upipe-modules/"
T = "@REPO@/lib/upipe-ts/"
F = "@REPO@/lib/upipe-framers/"
H = "@VERIF@/harness/"
E = "@VERIF@/engine/"

CORE = [R + f for f in (
    "umem_alloc.c", "umem_pool.c", "ubuf_block_mem.c", "ubuf_mem.c", "ubuf_mem_common.c",
    "ubuf_pic_mem.c", "ubuf_pic_common.c", "ubuf_pic.c", "ubuf_sound_mem.c", "ubuf_sound_common.c",
    "udict_inline.c", "uref_std.c", "upump_common.c", "uprobe.c", "uprobe_stdio.c", "uprobe_prefix.c",
    "uprobe_ubuf_mem.c", "uprobe_uref_mgr.c", "uprobe_uclock.c", "uprobe_upump_mgr.c",
    "ustring.c", "uuri.c", "uref_uri.c", "uref_pic_flow.c", "upipe_dump.c",
    "ucookie.c", "uprobe_ubuf_mem_pool.c", "uprobe_loglevel.c", "uprobe_transfer.c", "uprobe_select_flows.c",
    "uclock_std.c", "uprobe_dejitter.c", "uprobe_syslog.c", "uprobe_source_mgr.c",
)]

MODS = [M + f for f in (
    "upipe_idem.c", "upipe_dup.c", "upipe_setattr.c", "upipe_setflowdef.c", "upipe_probe_uref.c", "upipe_skip.c", "upipe_htons.c",
    "upipe_delay.c", "upipe_match_attr.c", "upipe_null.c", "upipe_queue_sink.c", "upipe_queue_source.c", "upipe_queue.c",
    "upipe_aggregate.c", "upipe_chunk_stream.c", "upipe_time_limit.c", "upipe_genaux.c", "upipe_buffer.c", "upipe_rate_limit.c",
    "upipe_burst.c", "upipe_convert_to_block.c", "upipe_discard_blocking.c", "upipe_dump.c", "upipe_noclock.c", "upipe_nodemux.c",
    "upipe_setrap.c",
    "upipe_dejitter.c", "upipe_multicat_probe.c", "upipe_aes_decrypt.c", "upipe_block_to_sound.c", "upipe_dtsdi.c", "upipe_rtp_pcm_unpack.c",
    "upipe_m3u_reader.c", "upipe_void_source.c", "upipe_even.c", "upipe_trickplay.c", "upipe_play.c", "upipe_stream_switcher.c",
    "upipe_separate_fields.c", "upipe_row_split.c", "upipe_row_join.c", "upipe_ntsc_prepend.c", "upipe_rtp_pcm_pack.c", "upipe_audio_copy.c",
    "upipe_subpic_schedule.c", "upipe_crop.c", "upipe_video_blank.c", "upipe_audio_blank.c", "upipe_sine_wave_source.c",
    "upipe_blit.c", "upipe_videocont.c", "upipe_audiocont.c", "upipe_audio_split.c", "upipe_audio_merge.c", "upipe_grid.c", "upipe_rtp_h264.c", "upipe_rtp_mpeg4.c", "upipe_sync.c",
)]
PIPEX = CORE + MODS + [E + "vmock_upump.c", E + "simfd.c"]

BLK = [R + "umem_alloc.c", R + "ubuf_block_mem.c", R + "ubuf_mem_common.c"]
BLK_FAULT = [(f, ["-Dmalloc=vf_malloc"]) for f in BLK]   # libc allocations routed through the harness (refused-memory axis)
VS = [E + "vsched.c"]
HARNESSES = {
    "c06_worker": {"src": [H + "c06_worker.c", M + "upipe_transfer.c", M + "upipe_worker.c"] + PIPEX + VS},
    "c06_xfer": {"src": [H + "c06_xfer.c", M + "upipe_transfer.c"] + PIPEX + VS},
    "c06_queue": {"src": [H + "c06_queue.c"] + PIPEX + VS},
    # two real pthreads in strict alternation (the probe under test keeps its state in pthread-specific data); no scheduler
    "c06_freeze": {"src": [H + "c06_freeze.c", "@REPO@/lib/upipe-pthread/uprobe_pthread_upump_mgr.c", R + "uprobe_upump_mgr.c", R + "uprobe.c",
                           R + "uprobe_prefix.c", R + "upump_common.c", M + "upipe_transfer.c", M + "upipe_worker.c", M + "upipe_queue_sink.c",
                           M + "upipe_queue_source.c", M + "upipe_queue.c", E + "vmock_upump.c", E + "simfd.c"]},
    # the four files that allocate descriptors (uref, dictionary, buffer, shared-area structures) with libc malloc get it
    # routed through the harness, so that these requests can be refused too (c01_uref.c: vf_malloc)
    "c01_uref": {"src": [H + "c01_uref.c"] + [((f, ["-Dmalloc=vf_malloc"]) if f in (R + "uref_std.c", R + "udict_inline.c", R + "ubuf_block_mem.c", R + "ubuf_mem_common.c") else f)
                                               for f in PIPEX]},
    "c12_request": {"src": [H + "c12_request.c", M + "upipe_segment_source.c", T + "upipe_ts_align.c", T + "upipe_ts_sync.c", T + "upipe_ts_check.c", "@REPO@/lib/upipe-framers/upipe_auto_framer.c"] + PIPEX},
    "c14_rechunk": {"src": [H + "c14_rechunk.c", T + "upipe_ts_sync.c", T + "upipe_ts_check.c", T + "upipe_ts_align.c"] + PIPEX},
    "pipex_cat": {"src": [H + "pipex_cat.c", T + "upipe_ts_sync.c", T + "upipe_ts_check.c", T + "upipe_ts_align.c", T + "upipe_ts_psi_split.c", T + "upipe_ts_split.c",
                          T + "upipe_ts_pid_filter.c", T + "upipe_ts_pcr_interpolator.c", T + "upipe_ts_tstd.c",
                          T + "upipe_ts_decaps.c", T + "upipe_ts_pes_decaps.c", T + "upipe_ts_psi_merge.c", T + "upipe_ts_psi_join.c",
                          F + "upipe_opus_framer.c", F + "upipe_telx_framer.c", F + "upipe_s302_framer.c"] + PIPEX},
    "c07_lin": {"src": [H + "c07_lin.c"] + VS},
    "c19_window": {"src": [H + "c19_window.c", R + "ubuf_mem_common.c", R + "ubuf_mem.c", R + "ubuf_pic_mem.c", R + "ubuf_pic_common.c", R + "ubuf_pic.c",
                           R + "ubuf_sound_mem.c", R + "ubuf_sound_common.c", R + "ubuf_block_mem.c", R + "uref_pic_flow.c", R + "udict_inline.c",
                           R + "uref_std.c", R + "umem_alloc.c"]},
    "c13_pump": {"src": [H + "c13_pump.c", E + "vmock_upump.c", (R + "upump_common.c", ["-Dmalloc=vf_malloc"]), "@REPO@/lib/upump-ev/upump_ev.c"], "libs": ["-lev"]},
    "c11_clock": {"src": [H + "c11_clock.c", R + "umem_alloc.c", R + "udict_inline.c", R + "uref_std.c"]},
    "c02_cow": {"src": [H + "c02_cow.c", (R + "ubuf_block_mem.c", ["-Dmalloc=vf_malloc"]), (R + "ubuf_mem_common.c", ["-Dmalloc=vf_malloc"]), R + "ubuf_mem.c", R + "ubuf_pic_mem.c", R + "ubuf_pic_common.c",
                        R + "ubuf_pic.c", R + "ubuf_sound_mem.c", R + "ubuf_sound_common.c", R + "uref_pic_flow.c", R + "udict_inline.c",
                        R + "uref_std.c", R + "umem_alloc.c"]},
    "c10_udict": {"src": [H + "c10_udict.c", R + "udict_inline.c"]},
    "c08_wakeup": {"src": [H + "c08_wakeup.c", E + "simfd.c"] + VS},
    "c09_refcount": {"src": [H + "c09_refcount.c", R + "ubuf_block_mem.c", R + "ubuf_mem_common.c"] + VS},
    "c03_block": {"src": [H + "c03_block.c"] + BLK_FAULT},
    "c18_bits": {"src": [H + "c18_bits.c", R + "umem_alloc.c", R + "ubuf_block_mem.c", R + "ubuf_mem_common.c"]},
}

# ---- free-running ThreadSanitizer pass (DESIGN.md 2.8): real pthreads, no scheduler; validates the scheduling-point
# assumption of vsched (an atomic turned into a plain access has no point to preempt at). Bodies: the repository's own
# threaded tests (real upump_ev loops, upipe_pthread_transfer, the three worker flavours) and harness/free_conc.c.
TSANLIB = CORE + [M + "upipe_queue_sink.c", M + "upipe_queue_source.c", M + "upipe_queue.c", M + "upipe_transfer.c", M + "upipe_worker.c",
                  M + "upipe_null.c", M + "upipe_idem.c", "@REPO@/lib/upump-ev/upump_ev.c",
                  "@REPO@/lib/upipe-pthread/umutex_pthread.c", "@REPO@/lib/upipe-pthread/upipe_pthread_transfer.c",
                  "@REPO@/lib/upipe-pthread/uprobe_pthread_assert.c", "@REPO@/lib/upipe-pthread/uprobe_pthread_upump_mgr.c"]
FREE_TESTS = ["upipe_transfer_test", "upipe_worker_linear_test", "upipe_worker_sink_test", "upipe_worker_source_test", "upipe_worker_test",
              "uprobe_pthread_upump_mgr_test", "udeal_test", "ulifo_uqueue_test"]
for _t in FREE_TESTS:
    HARNESSES["free_" + _t] = {"src": ["@REPO@/tests/" + _t + ".c"] + TSANLIB, "san": "tsan", "libs": ["-lev"], "free": True,
                               "objgroup": "tsanlib", "cflags": ["-w"]}
HARNESSES["free_conc"] = {"src": [H + "free_conc.c", R + "umem_alloc.c", R + "umem_pool.c", R + "udict_inline.c", R + "uref_std.c",
                                  R + "ubuf_block_mem.c", R + "ubuf_mem_common.c"], "san": "tsan", "free": True, "objgroup": "tsanlib"}

def _free_jobs(tests, conc):
    """jobs of the free-running pass: each is run FREE_REPS times by the driver"""
    jobs = [("free_" + t, []) for t in tests]
    for a in conc:
        jobs.append(("free_conc", a))
    return jobs

FREE_NOTE = (" A free-running ThreadSanitizer pass (real threads, no scheduler; not exhaustive, not the deciding step) runs the repository's own "
             "threaded tests and harness/free_conc.c to validate that no thread-shared access escapes the hooked points; by-design plain accesses "
             "inside uring.h and libev's lazy descriptor removal are suppressed (engine/tsan.supp).")

DEFAULT_ASSUME = [
    "harness compiled with clang -O1 + AddressSanitizer from /repo's working tree; library asserts enabled",
    "128-bit hash of the canonical state used for deduplication (collision probability negligible)",
]

HOOK_COMMITS = ["2819de2"]
NOT_YET = {}

CHECKS = {
    "C18": {
        "engine": "seqx", "design_ref": "DESIGN.md section 3 C18",
        "technique": "explicit-state BFS over put(width,value) sequences on the real ubits/ubuf_block_stream code vs an independent bit packer",
        "level_text": "Exhaustive enumeration of all field sequences up to the stated depth over widths 1..32 and boundary values; every transition compares bytes, length, read-back (ubits_get and block stream over all segmentations into <=3 segments), overflow reporting and guard bytes. Bounded, not a proof.",
        "level_note": "Trusted: reference packer (15 lines), clang/ASan. Three-segment layouts are also built by inserting a segmented block and by write mappings that start inside a segment (each mapping must end with its segment). Outside the bound: sequences longer than the depth, values other than the 5 boundary patterns.",
        "jobs": {
            "quick": [("c18_bits", ["--mode", "write", "--widths", "full", "--values", 5, "--depth", 3, "--deadline", 70]),
                      ("c18_bits", ["--mode", "stream", "--widths", "full", "--values", 3, "--depth", 2, "--deadline", 70]),
                      ("c18_bits", ["--mode", "stream", "--widths", "edge", "--values", 2, "--depth", 3, "--deadline", 70])],
            "thorough": [("c18_bits", ["--mode", "write", "--widths", "full", "--values", 3, "--depth", 4, "--deadline", 800]),
                         ("c18_bits", ["--mode", "write", "--widths", "full", "--values", 5, "--depth", 3, "--deadline", 800]),
                         ("c18_bits", ["--mode", "write", "--widths", "edge", "--values", 3, "--depth", 6, "--deadline", 800]),
                         ("c18_bits", ["--mode", "stream", "--widths", "full", "--values", 5, "--depth", 2, "--deadline", 800]),
                         ("c18_bits", ["--mode", "stream", "--widths", "edge", "--values", 3, "--depth", 4, "--deadline", 800])],
        },
        "rule": "BFS over ubits_put(width,value) sequences; key = (cache word, fill level, bytes flushed, #fields[, field list]); "
                "non-trivial = states in which at least one 4-octet flush of the cache happened",
        "bounds": {"quick": "write: widths 1..32 x 5 values, depth 3; stream: widths 1..32 x 3 values depth 2 and 12 edge widths x 2 values depth 3, "
                            "all segmentations into <=3 segments, start bit offsets after 0..2 fields",
                   "thorough": "write: depth 4 (3 values), depth 6 on 12 edge widths; stream: depth 2 full x 5 values, depth 4 edge widths x 3 values"},
        "assumptions": DEFAULT_ASSUME + ["block bit-stream reader is asked for at most 16 bits per fill (documented limit is available<=32)"],
    },
}

def _c03_jobs(depth, maxn, deadline):
    cfgs = [(0, 0, 0, 0), (3, 0, 0, 0), (3, 2, 4, 2), (-1, -1, -1, 0)]
    jobs = []
    for (pp, ap, al, pool) in cfgs:
        for n0 in (0, 3):
            jobs.append(("c03_block", ["--prepend", pp, "--append", ap, "--align", al, "--pool", pool,
                                       "--n0", n0, "--maxn", maxn, "--depth", depth, "--deadline", deadline]))
    # environment deviation: one (thorough: two) refused memory request(s) anywhere in the history: an operation that fails for
    # that reason must leave the block as it was (buffer areas and buffer / shared-area descriptors all count)
    for (pp, ap, al, pool) in ((0, 0, 0, 0), (3, 2, 4, 2)):
        for n0 in (0, 3):
            jobs.append(("c03_block", ["--prepend", pp, "--append", ap, "--align", al, "--pool", pool, "--faults", 1 if depth <= 4 else 2,
                                       "--n0", n0, "--maxn", maxn, "--depth", depth, "--deadline", deadline]))
    # repeating fill (0,0,0,1,...): occurrences are not unique, words overlap themselves (scan/find/compare/match)
    for n0 in (0, 4):
        jobs.append(("c03_block", ["--prepend", 3, "--append", 0, "--align", 0, "--pool", 0, "--fill", "repeat",
                                   "--n0", n0, "--maxn", maxn + 1, "--depth", max(2, depth - 1), "--deadline", deadline]))
    return jobs

CHECKS["C03"] = {
    "engine": "seqx", "design_ref": "DESIGN.md section 3 C03",
    "technique": "explicit-state BFS over block mutator sequences on real ubuf_block/ubuf_block_mem vs a byte-vector model, full accessor sweep on every distinct state",
    "level_text": "All sequences of append/insert/delete/truncate/resize/prepend/splice/split/copy/merge/dup (with in-range, boundary, negative and out-of-range arguments) up to the stated depth, on 4 manager configurations and two initial sizes; every transition checks result, size, content and error-leaves-unchanged by walking the segment chain; every distinct state (segmentation + offset caches) gets the full accessor sweep at all offsets/sizes. Bounded, not a proof.",
    "level_note": "Trusted: the byte-vector model and the direct walk of public struct ubuf_block fields. Fault jobs (--faults): once (twice in thorough) per history the k-th next memory request (k=1,2; buffer areas and buffer / shared-area descriptors: umem_alloc.c, ubuf_block_mem.c, ubuf_mem_common.c are compiled with -Dmalloc=vf_malloc) is refused; the operation may then fail and must leave the block unchanged. Outside: blocks longer than maxn bytes / more than 4 segments, deeper sequences, negative offsets for insert/delete/truncate (not defined by the header).",
    "jobs": {"quick": _c03_jobs(4, 4, 75), "thorough": _c03_jobs(5, 6, 840)},
    "rule": "BFS, key = per block: segments (area index, offset, size), total_size, offset-cache segment+offset, end-cache segment; "
            "non-trivial = distinct states whose main block is segmented",
    "bounds": {"quick": "depth 4 (cap 75 s/job), blocks <= 4 bytes, <= 4 segments, 8 jobs (4 manager configs x initial size 0/3) with position-coded content + 2 jobs with repeating content (depth-1, blocks <= 5)",
               "thorough": "depth 5 (cap 14 min/job), blocks <= 6 bytes"},
    "assumptions": DEFAULT_ASSUME + ["accessor sweep is run once per distinct canonical state (its outcome is a function of that state)"],
}

def _c07_jobs(tier):
    jobs = []
    q = tier == "quick"
    dl = 75 if q else 840
    for st in ("fifo", "lifo", "pool"):
        # 2 threads: bound 3 (quick) / 4; 3 threads at bound 2 / 3 (ABA-type bugs need 3 threads, see DESIGN 3/C07)
        n2, n3 = (3, 2) if q else (2, 3)   # 15 jobs, one wave on 16 cores
        for sh in range(n2):
            jobs.append(("c07_lin", ["--struct", st, "--threads", 2, "--maxops", 2 if q else 3, "--maxcap", 2 if q else 3, "--bound", 3 if q else 4,
                                     "--prog-shard", "%d/%d" % (sh, n2), "--deadline", dl]))
        for sh in range(n3):
            # quick: 3-thread programs of up to 4 operations at bound 2, those of 5-6 operations at bound 1
            jobs.append(("c07_lin", ["--struct", st, "--threads", 3, "--maxops", 2, "--maxcap", 2 if q else 3, "--bound", 2 if q else 3,
                                     "--prog-shard", "%d/%d" % (sh, n3), "--deadline", dl] + (["--maxtotal", 4, "--bigbound", 1] if q else [])))
    return jobs

CHECKS["C07"] = {
    "engine": "vsched", "design_ref": "DESIGN.md section 3 C07",
    "technique": "stateless preemption-bounded exploration of all interleavings of real threads on the real ufifo/ulifo/upool (hooked atomics and plain ring accesses), brute-force linearizability check per execution",
    "level_text": "All small client programs (2-3 threads, <=2-3 ops each, capacities 1-3, every prefill) are run under a controlled scheduler that enumerates every interleaving with at most k preemptions at the granularity of each atomic op and each plain ring-element access; every execution's call/return history is checked against the sequential FIFO/LIFO specification by brute force (pool: exclusive holding + conservation). Bounded, not a proof.",
    "level_note": "Sequentially consistent interleavings only (x86-TSO argument in DESIGN 6). Outside: more than 3 threads, more than 3 ops per thread, tag wrap-around (needs 256 reuses)." + FREE_NOTE,
    "jobs": {"quick": _c07_jobs("quick") + _free_jobs(["ulifo_uqueue_test"], [["--mode", "ring", "--threads", 3, "--iters", 3000], ["--mode", "ring", "--threads", 4, "--iters", 2000]]),
             "thorough": _c07_jobs("thorough") + _free_jobs(["ulifo_uqueue_test"], [["--mode", "ring", "--threads", 3, "--iters", 30000], ["--mode", "ring", "--threads", 4, "--iters", 20000]])},
    "rule": "one 'state' = one scheduling point visited, one execution = one complete schedule of a client program; "
            "non-trivial = executions in which two operations of different threads overlapped in real time",
    "bounds": {"quick": "2 threads x <=2 ops, preemption bound 3; 3 threads x <=2 ops: programs of <=4 operations at bound 2, of 5-6 operations at bound 1; capacities 1-2 (pool 0-2), all prefills",
               "thorough": "2 threads x <=3 ops bound 4; 3 threads x <=2 ops bound 3; capacities 1-3"},
    "assumptions": DEFAULT_ASSUME + ["scheduling points: every uatomic_* and every plain uring_elem access; code between two points runs atomically",
                                     "sequentially consistent memory (x86-TSO + locked CAS before publication)"],
}

def _c09_jobs(tier):
    q = tier == "quick"
    dl = 70 if q else 800
    jobs = [("c09_refcount", ["--mode", "ref", "--threads", 2, "--maxlen", 5, "--bound", 8 if q else 12, "--deadline", dl]),
            ("c09_refcount", ["--mode", "ref", "--threads", 3, "--maxlen", 3 if q else 5, "--bound", 4 if q else 5, "--deadline", dl])]
    for pool in (0, 1):
        jobs.append(("c09_refcount", ["--mode", "ubuf", "--pool", pool, "--threads", 2, "--maxlen", 3, "--bound", 4 if q else 6, "--deadline", dl]))
        jobs.append(("c09_refcount", ["--mode", "ubuf", "--pool", pool, "--threads", 3, "--maxlen", 1 if q else 3, "--bound", 3, "--deadline", dl]))
    return jobs

CHECKS["C09"] = {
    "engine": "vsched", "design_ref": "DESIGN.md section 3 C09",
    "technique": "stateless preemption-bounded exploration of all interleavings of use/release (urefcount) and dup/free (real ubuf_block_mem over a counting allocator) by 2-3 threads",
    "level_text": "Every interleaving with at most k preemptions (at every atomic operation, and every ring access for the pooled variant) of all balanced use/release programs of 2-3 threads, and of dup/free programs on a real shared block buffer with pool depth 0 and 1; oracle: harness-side outstanding-reference and destructor counters, counting allocator (area freed exactly once, never while a handle is live), manager refcounts back to 1, ASan. Bounded, not a proof.",
    "level_note": "Sequentially consistent interleavings; programs up to 5 ops per thread; 3 threads at most." + FREE_NOTE,
    "jobs": {"quick": _c09_jobs("quick") + _free_jobs([], [["--mode", "ref", "--threads", 3, "--iters", 3000], ["--mode", "ubuf", "--threads", 3, "--iters", 2000, "--pool", 0], ["--mode", "ubuf", "--threads", 3, "--iters", 2000, "--pool", 2]]),
             "thorough": _c09_jobs("thorough") + _free_jobs([], [["--mode", "ref", "--threads", 4, "--iters", 30000], ["--mode", "ubuf", "--threads", 4, "--iters", 20000, "--pool", 0], ["--mode", "ubuf", "--threads", 4, "--iters", 20000, "--pool", 2]])},
    "rule": "one execution = one complete schedule; every execution has >= 2 threads racing on the same counter, so all are counted non-trivial; states = scheduling points visited",
    "bounds": {"quick": "ref: 2 threads x <=5 ops bound 8, 3 threads x <=3 ops bound 4; ubuf: 2 threads x <=3 ops bound 4, 3 threads x 1 op bound 3; pool 0/1",
               "thorough": "ref: 2 threads bound 12, 3 threads x <=5 ops bound 5; ubuf: 2 threads bound 6, 3 threads x <=3 ops bound 3"},
    "assumptions": DEFAULT_ASSUME + ["scheduling points: every uatomic_* op and plain ring access"],
}

def _c08_jobs(tier):
    q = tier == "quick"
    dl = 70 if q else 800
    d = 0 if q else 1   # thorough: one or two preemptions deeper
    jobs = []
    def uq(L, P, C, E, style, gran, bound):
        jobs.append(("c08_wakeup", ["--mode", "uqueue", "--len", L, "--prod", P, "--cons", C, "--elems", E, "--style", style,
                                    "--gran", gran, "--bound", bound, "--deadline", dl]))
    for style in ("once", "drain"):
        uq(1, 1, 1, 2, style, "fine", 4 + d)
        uq(1, 2, 1, 1, style, "fine", 3 + d)
        uq(1, 2, 1, 1, style, "coarse", 6 + 2 * d)
        uq(2, 2, 1, 2, style, "coarse", 4 + d)
        uq(1, 1, 2, 2, style, "coarse", 5 + d)
        uq(2, 2, 2, 1, style, "coarse", 3 + d)
        uq(1, 2, 2, 1, style, "coarse", 3 + 2 * d)
        uq(2, 1, 1, 3, style, "fine", 3 + d)
        if not q:
            uq(3, 2, 1, 2, style, "coarse", 4)
            uq(2, 2, 1, 2, style, "fine", 3)
    jobs.append(("c08_wakeup", ["--mode", "udeal", "--contenders", 2, "--rounds", 2, "--bound", 7 + 3 * d, "--deadline", dl]))
    jobs.append(("c08_wakeup", ["--mode", "udeal", "--contenders", 3, "--rounds", 1, "--bound", 4 + d, "--deadline", dl]))
    jobs.append(("c08_wakeup", ["--mode", "udeal", "--contenders", 3, "--rounds", 2, "--bound", 3 + d, "--deadline", dl]))
    return jobs

CHECKS["C08"] = {
    "engine": "vsched", "design_ref": "DESIGN.md section 3 C08",
    "technique": "stateless preemption-bounded exploration of producers/consumers sleeping on simulated event descriptors (real uqueue.h/udeal.h), scheduler-level deadlock detection",
    "level_text": "All interleavings with at most k preemptions, at atomic-op and descriptor read/write granularity, of producers and consumers that sleep on the queue's event descriptors exactly like the in-tree users, and of 2-3 contenders on a dealer; 'every unfinished thread asleep on a non-readable descriptor' is detected by the scheduler and judged against harness-side occupancy/holder counters. Bounded, not a proof.",
    "level_note": "Simulated eventfd (Linux non-semaphore semantics). Coarse tier treats FIFO push/pop as atomic (justified by C07). Configurations: lengths 1-2, <=2 producers, <=2 consumers." + FREE_NOTE,
    "jobs": {"quick": _c08_jobs("quick") + _free_jobs(["udeal_test", "ulifo_uqueue_test"], [["--mode", "uqueue", "--threads", 4, "--iters", 3000], ["--mode", "udeal", "--threads", 3, "--iters", 3000]]),
             "thorough": _c08_jobs("thorough") + _free_jobs(["udeal_test", "ulifo_uqueue_test"], [["--mode", "uqueue", "--threads", 4, "--iters", 30000], ["--mode", "udeal", "--threads", 4, "--iters", 30000]])},
    "rule": "one execution = one complete schedule; non-trivial = executions in which at least one push failed / pop starved / grab was refused (somebody went to sleep); states = scheduling points visited",
    "bounds": {"quick": "uqueue L=1: 1P+1C x2 elems fine k<=4, 2P+1C fine k<=3 / coarse k<=6, 1P+2C coarse k<=5, 2P+2C coarse k<=3; L=2: 2P+1C x2 coarse k<=4, 2P+2C coarse k<=3, 1P+1C x3 fine k<=3; both consumer styles; udeal 2 contenders x2 rounds k<=7, 3 contenders k<=4, 3x2 rounds k<=3",
               "thorough": "same configurations one or two preemptions deeper, plus L=3 and L=2 at fine granularity"},
    "assumptions": DEFAULT_ASSUME + ["eventfd simulated in harness memory; watchers are level-triggered as with libev"],
}

def _c10_jobs(tier):
    q = tier == "quick"
    dl = 75 if q else 840
    jobs = []
    for (mn, ex, pool) in ((1, 1, 0), (8, 4, 2), (-1, -1, 0)):
        jobs.append(("c10_udict", ["--min", mn, "--extra", ex, "--pool", pool, "--keys", 10, "--depth", 4 if q else 5, "--deadline", dl]))
        jobs.append(("c10_udict", ["--min", mn, "--extra", ex, "--pool", pool, "--keys", 20, "--depth", 3 if q else 4, "--deadline", dl]))
        for sh in range(6):   # the deepest job, split by first operation
            jobs.append(("c10_udict", ["--min", mn, "--extra", ex, "--pool", pool, "--keys", 6, "--depth", 5 if q else 7, "--shard", "%d/6" % sh, "--deadline", dl]))
    jobs.append(("c10_udict", ["--min", 1, "--extra", 1, "--pool", 0, "--keys", 6, "--big", 1, "--depth", 3 if q else 4, "--deadline", dl]))
    # environment deviation: one (thorough: two) refused memory request(s) anywhere in the history
    for (mn, ex, pool) in ((1, 1, 0), (8, 4, 2)):
        for sh in range(6):
            jobs.append(("c10_udict", ["--min", mn, "--extra", ex, "--pool", pool, "--keys", 6, "--faults", 1 if q else 2, "--depth", 5 if q else 6, "--shard", "%d/6" % sh, "--deadline", dl]))
        jobs.append(("c10_udict", ["--min", mn, "--extra", ex, "--pool", pool, "--keys", 10, "--faults", 1, "--depth", 4 if q else 5, "--deadline", dl]))
    return jobs

CHECKS["C10"] = {
    "engine": "seqx", "design_ref": "DESIGN.md section 3 C10",
    "technique": "explicit-state BFS over set/delete/dup/copy/import/aliasing-set sequences on two real udict_inline dictionaries vs an ordered-map model",
    "level_text": "All operation sequences up to the stated depth over keys chosen to collide (same name/other type, prefixes, shorthand vs named, every attribute type) and boundary values (sizes 0/1/5/40/65000, 64-bit extremes), on 3 manager configurations that force storage growth; after every transition all keys are looked up with the typed getters in both dictionaries, iteration must visit each present attribute exactly once, udict_cmp must agree with the models, and the counting allocator must see no overrun. With --faults: additionally, once (twice in thorough) per history, 'the k-th next memory request is refused' (k=1,2) is armed; a refused set / dup / copy / import must fail cleanly: every other attribute untouched, the attribute being set either keeps its old value or (old value removed first) is absent, later operations behave, nothing leaks. Bounded, not a proof.",
    "level_note": "Trusted: the map model and value generators. Every walk is repeated with the caller's own copy of the name; on every distinct state uref_attr_copy_<type> of every key from the other dictionary (an empty one when there is none) into a duplicate must yield the source's value or absence and leave the neighbouring keys alone. Outside: sequences beyond the depth, names other than a/ab/abc/b, values other than the boundary sets, INT64_MIN (documented assert).",
    "jobs": {"quick": _c10_jobs("quick"), "thorough": _c10_jobs("thorough")},
    "rule": "BFS, key = iteration order of both dictionaries with values (TLV order is hidden state) + allocation sizes; non-trivial = states with >= 2 attributes or a second dictionary",
    "bounds": {"quick": "10 keys depth 4, 20 keys depth 3, 6 keys depth 5, x3 manager configs (min,extra,pool) in {(1,1,0),(8,4,2),default}; 65000-octet values depth 3",
               "thorough": "10 keys depth 5, 20 keys depth 4, 6 keys depth 7; 65000-octet values depth 4"},
    "assumptions": DEFAULT_ASSUME,
}

def _c02_jobs(tier):
    q = tier == "quick"
    dl = 75 if q else 840
    jobs = []
    # start states (op indices of c02_cow's alphabet): empty; alloc3+dup; alloc2+alloc3; picture+block-from-picture; sound+block-from-sound
    starts = [("", 5), ("1,2", 4), ("0,1", 4), ("20,25", 4), ("21,29", 4), ("1,2,20,22", 4), ("0,1,46,96", 4)]
    for (pp, ap, al, pool) in ((0, 0, 0, 0), (4, 0, 0, 2), (2, 1, 4, 2)):
        for (pre, d) in starts:
            a = ["--prepend", pp, "--append", ap, "--align", al, "--pool", pool, "--depth", d if q else d + 1, "--deadline", dl]
            if pre:
                a += ["--prefix", pre]
            jobs.append(("c02_cow", a))
    # environment deviation: one (thorough: two) refused memory request(s) anywhere in the history (umem requests and the libc
    # allocations of the buffer / shared-area descriptors); an operation that fails for that reason must change nothing
    for (pp, ap, al, pool) in ((0, 0, 0, 0), (4, 0, 0, 2)):
        for (pre, d) in starts:
            a = ["--prepend", pp, "--append", ap, "--align", al, "--pool", pool, "--faults", 1 if q else 2, "--depth", d - 1 if q else d, "--deadline", dl]
            if pre:
                a += ["--prefix", pre]
            jobs.append(("c02_cow", a))
    return jobs

CHECKS["C02"] = {
    "engine": "seqx", "design_ref": "DESIGN.md section 3 C02",
    "technique": "explicit-state BFS over dup/splice/split/insert/append/delete/resize/merge/write-mapping/free sequences on families of real block, picture and sound buffers sharing memory, vs per-handle byte models and an independent owner count",
    "level_text": "All operation sequences up to the stated depth over <=3 block handles, a 4x2 picture and a 4-sample sound (with duplicates and block re-exports of their planes), 3 manager configurations; after every transition every live handle is compared with its model copy, every granted writable mapping is checked against an owner count obtained by walking all live handles, and all live memory areas of the counting allocator are compared before/after every non-write operation. Bounded, not a proof.",
    "level_note": "Trusted: byte models, direct walk of public struct ubuf_block fields, counting allocator. Fault jobs (--faults): once (twice in thorough) per history 'the k-th next memory request is refused' (k=1,2; umem requests and libc allocations of ubuf_block_mem.c / ubuf_mem_common.c) is armed; an operation that fails for that reason must leave every handle as it was. Outside: more than 3 block handles / 7 segments, deeper sequences, multi-plane pictures.",
    "jobs": {"quick": _c02_jobs("quick"), "thorough": _c02_jobs("thorough")},
    "rule": "BFS, key = per handle segments (area index, offset, size) + caches + content, picture/sound sharing; non-trivial = states in which some memory area is referenced by >= 2 segments/handles",
    "bounds": {"quick": "depth 5 from the empty state and depth 4 from each of 5 further start states (block+dup; two blocks; picture+block view; sound+block view; block+dup+picture+dup; segmented block with its offset cache on the 2nd segment), 3 manager configs (prepend,append,align,pool) in {(0,0,0,0),(4,0,0,2),(2,1,4,2)}",
               "thorough": "one level deeper from every start state"},
    "assumptions": DEFAULT_ASSUME,
}

def _c11_jobs(tier):
    q = tier == "quick"
    dl = 75 if q else 840
    n = 14
    jobs = [("c11_clock", ["--domains", 3, "--depth", 3, "--deadline", dl])]
    for sh in range(n):
        jobs.append(("c11_clock", ["--domains", 3, "--depth", 4 if q else 5, "--shard", "%d/%d" % (sh, n), "--deadline", dl]))
        jobs.append(("c11_clock", ["--domains", 2, "--depth", 5 if q else 6, "--shard", "%d/%d" % (sh, n), "--deadline", dl]))
    return jobs

CHECKS["C11"] = {
    "engine": "seqx", "design_ref": "DESIGN.md section 3 C11",
    "technique": "explicit-state BFS over set/rebase/delete/add/set_rap/delay/dup sequences on a real uref's clock fields, algebraic invariants through the getters + independent mod-2^64 model",
    "level_text": "All operation sequences up to the stated depth over the three clock domains and the boundary values 0, 1, 2, 2^63, 2^64-2, 2^64-1 (the 'unset' value); on every transition: set reads back, rebase / reading / uref_dup change none of the twelve getter results, set_rap only at or before the cr, dts=cr+delay, pts=dts+delay, rap=cr-delay whenever readable, and agreement with an independent model. Bounded, not a proof.",
    "level_note": "Header-only code executed directly. Outside: values other than the 6 boundary values (and what add_date derives from them), sequences beyond the depth.",
    "jobs": {"quick": _c11_jobs("quick"), "thorough": _c11_jobs("thorough")},
    "rule": "BFS, key = the uref clock fields (flags, 3 dates, 3 delays); non-trivial = states with at least one date and one delay set",
    "bounds": {"quick": "3 domains depth 4; 2 domains depth 5 (sharded by first op over 14 jobs each)", "thorough": "3 domains depth 5; 2 domains depth 6"},
    "assumptions": DEFAULT_ASSUME + ["depth-4/5 jobs are sharded by first operation; states are deduplicated within a shard only"],
}

def _c13_jobs(tier):
    jobs = []
    for ty in ("idler", "timer", "fd"):
        for cb in ("none", "stop", "block", "free", "start"):
            jobs.append(("c13_pump", ["--type", ty, "--cb", cb, "--backend", "mock", "--depth", 40, "--deadline", 70]))
    for cb in ("none", "stop", "block", "free"):
        jobs.append(("c13_pump", ["--type", "idler", "--cb", cb, "--backend", "ev", "--depth", 40, "--deadline", 70]))
    return jobs

CHECKS["C13"] = {
    "engine": "seqx", "design_ref": "DESIGN.md section 3 C13",
    "technique": "explicit-state BFS to closure over start/stop/restart/set_status/blocker alloc+free/dispatch/free on a pump of a mock event loop built on the real upump_common.c, vs a 3-variable reference automaton; conformance replay on real upump_ev/libev",
    "level_text": "The full reachable state space (closure, no depth bound) of one pump with up to 3 blockers, for idler / timer / descriptor pumps and 5 callback behaviours (nothing, stop itself, block itself, free itself, start again): after every call the back-end's active flag must equal started && no blocker && !freed, back-end calls must be well-formed (no start while active, no stop while inactive, matching status), freeing must notify every outstanding blocker exactly once, callbacks only from dispatch. The same alphabet is replayed on a real upump_ev idler with ev_run(EVRUN_NOWAIT) and what libev invokes is compared with the automaton.",
    "level_note": "Operation blocker_alloc(memory-refused): upump_common.c is compiled with -Dmalloc=vf_malloc and its memory request is refused during that call; a blocker that could not be allocated does not exist, the pump stays as active as it was. Blocker callbacks follow upipe_helper_input's contract (unlink + free). upump_restart is used on timer pumps only (as documented). One-shot timer expiry inside libev is not modelled by the mock.",
    "jobs": {"quick": _c13_jobs("quick"), "thorough": _c13_jobs("thorough")},
    "rule": "BFS to closure, key = automaton variables + upump_common fields + back-end flags; non-trivial = states with a blocker held or the pump freed",
    "bounds": {"quick": "closure (no depth bound): 3 pump types x 5 callback behaviours on the mock back-end, 4 behaviours on real libev; <= 3 blockers",
               "thorough": "same (the space is finite and fully explored)"},
    "assumptions": DEFAULT_ASSUME,
}

def _c19_jobs(tier):
    q = tier == "quick"
    n = 15
    jobs = [("c19_window", ["--what", "sound", "--chain", 1])]
    for sh in range(n):
        jobs.append(("c19_window", ["--what", "pic", "--fmt-shard", "%d/%d" % (sh, n), "--sizes", 2 if q else 3, "--hsizes", 3, "--chain", 2,
                                    "--deep", 1 if q else 2, "--deadline", 75 if q else 840]))
    return jobs

CHECKS["C19"] = {
    "engine": "seqx", "design_ref": "DESIGN.md section 3 C19",
    "technique": "exhaustive enumeration of every standard picture format x sizes x manager configurations x windows x resize chains (and sound) on the real ubuf_pic/ubuf_sound code over a counting allocator, against a linear-geometry model",
    "level_text": "Every entry of uref_pic_flow_formats[] x sizes (1..2 or 3 granules) x 6 margin settings x alignments {0,16,64} x align offsets; on each buffer every window along each axis (offsets in [-S-g,S+g], sizes in {-1,0..S+g}, step 1) plus corner combinations, read and write mapping, resize chains, dup, split_fields; sound: 4 sample sizes x 1-3 planes x sizes x alignments x every window x resize. Accepted windows must sit at the address the plane geometry predicts inside the allocator's area, invalid ones must be refused, planes/lines must not overlap, resize must keep visible pixels at their address.",
    "level_note": "Trusted: the geometry model (origin + line*stride + column*macropixel size) and the counting allocator. Outside: pictures larger than 3 granules, resize chains longer than 2.",
    "jobs": {"quick": _c19_jobs("quick"), "thorough": _c19_jobs("thorough")},
    "rule": "state = one (format, size, manager configuration[, resize chain]) buffer; transition = one window / resize request; non-trivial = buffers reached through a resize",
    "bounds": {"quick": "all formats, widths 1-3 granules x heights 1-2 granules, every resize followed by the full window sweep; chains of two resizes (acceptance and geometry of the second) on one-granule pictures with margins on all sides and no alignment",
               "thorough": "sizes 1-3 granules; chains of two resizes for every margin setting without alignment, pictures of <= 2 granules"},
    "assumptions": DEFAULT_ASSUME,
}


def _c14_jobs(tier):
    q = tier == "quick"
    dl = 100 if q else 840
    jobs = [("c14_rechunk", ["--pipe", "agg", "--maxn", 9 if q else 12, "--deadline", dl]),
            ("c14_rechunk", ["--pipe", "chunk", "--maxn", 10 if q else 13, "--deadline", dl])]
    def sh(pipe, n, alphabet, maxn, minn=0):
        for i in range(n):
            jobs.append(("c14_rechunk", ["--pipe", pipe, "--alphabet", alphabet, "--minn", minn, "--maxn", maxn, "--shard", "%d/%d" % (i, n), "--deadline", dl]))
    if q:
        sh("ts_sync", 8, "470001", 7)
        sh("ts_align", 3, "470001", 6)
        sh("ts_check", 4, "470001", 7)
        sh("ts_check>agg", 4, "470001", 6)
    else:
        sh("ts_sync", 16, "470001", 8)
        sh("ts_sync", 4, "4700", 9, 9)
        sh("ts_align", 6, "470001", 7)
        sh("ts_check", 6, "470001", 8)
        sh("ts_check>agg", 4, "470001", 7)
    return jobs

CHECKS["C14"] = {
    "engine": "seqx", "design_ref": "DESIGN.md section 3 C14",
    "technique": "exhaustive enumeration of all byte streams over a 2-3 symbol alphabet x all cuttings into buffers (segmented chunks, inserted empty buffers, discontinuity) x configurations on the real aggregate / chunk_stream / ts_sync / ts_check / ts_align pipes, vs reference re-chunkers and the uncut run",
    "level_text": "Every byte stream up to the stated length (TS pipes: all strings over {0x47,0x00,0x01}; aggregate/chunk: position-coded octets), cut in every possible way into buffers, each chunk also as two segments, with an empty buffer inserted at every position, and as ONE buffer whose segments are the chunks (its outputs must equal those of the same buffer in one segment), for every configuration (aggregate MTU 1/3/4/8 with and without input-size hint; chunk (mtu,align) in 5 settings; TS packet size 2-4 x sync count 2-3), run on the real pipes and released: outputs must be in-order non-overlapping pieces of the input, aggregate/chunk must output every accepted octet exactly once but for the unaligned tail with every unit within the configured size, TS units must be whole packets starting with 0x47 and equal to a reference synchroniser's, chunk/ts_sync/ts_align outputs must equal those of the uncut run, the chain ts_check -> aggregate (MTU 2-3 packets) must output, regrouped, exactly the packets ts_check lets through alone, release must return (watchdog) and leave nothing allocated. Bounded, not a proof.",
    "level_note": "Packet sizes 2-4 stand for 188 (the code is size-generic); options are set while nothing is pending. Outside: longer streams, alphabets beyond 3 symbols, option changes mid-stream.",
    "jobs": {"quick": _c14_jobs("quick"), "thorough": _c14_jobs("thorough")},
    "rule": "state = one (stream, configuration); transition = one cutting/variant of it run on the real pipe; non-trivial = runs that produced at least one output unit",
    "bounds": {"quick": "ts_sync/ts_check: all streams of length <= 7 over 3 symbols; ts_align and ts_check>aggregate <= 6; aggregate <= 9, chunk <= 10 octets; all cuttings, 2-segment chunks, one empty buffer at every position, discontinuity at every chunk (ts_sync)",
               "thorough": "ts_sync/ts_check <= 8 (3 symbols) and ts_sync = 9 (2 symbols); ts_align and ts_check>aggregate <= 7; aggregate <= 12, chunk <= 13"},
    "assumptions": DEFAULT_ASSUME + ["the reference synchroniser follows the documented mechanism (N sync octets one packet apart; at release, while locked, whole packets starting with the sync octet)"],
    "job_timeout": {"quick": 200, "thorough": 1200},
}


CAT_ROWS = ["skip>htons", "setattr>delay>idem", "idem", "skip", "htons", "delay", "setattr", "setflowdef", "probe_uref", "match_attr", "null", "dup", "time_limit", "genaux",
            "buffer", "rate_limit", "qsink", "qsink_noloop", "agg", "chunk", "ts_sync", "ts_check", "ts_align", "ts_psi_split", "ts_split",
            "burst", "convert_to_block", "discard_blocking", "dump", "noclock", "nodemux", "setrap"]
# second batch of generic rows (block_to_sound, rtp_pcm_unpack, m3u_reader, row_join, even, trickplay and stream_switcher were listed once the
# defects they exposed on the original tree had been repaired, see known_findings.txt)
CAT_GENERIC2 = ("dejitter", "multicat_probe", "aes_decrypt", "aes_decrypt_clear", "dtsdi", "ts_pidf", "ts_pcr_interpolator", "ts_tstd", "ts_decaps", "ts_pes_decaps",
                "ts_psi_merge", "telx_framer", "s302_framer", "opus_framer", "void_source", "sine_wave_source", "separate_fields", "row_split", "ntsc_prepend",
                "rtp_pcm_pack", "audio_copy", "crop", "video_blank", "audio_blank", "subpic_schedule",
                "dejitter_sub", "subpic_schedule_sub", "play", "ts_psi_join",
                "block_to_sound", "rtp_pcm_unpack", "m3u_reader", "row_join", "even", "trickplay", "stream_switcher",
                "stream_switcher_ml", "blit", "videocont", "audiocont", "audio_split", "audio_merge", "grid", "rtp_h264", "rtp_mpeg4", "sync")
CAT_ROWS += list(CAT_GENERIC2)
# generic rows whose depth differs from (quick 4, thorough 5): input-subpipe rows need one more step (allocate the subpipe); ntsc_prepend moves 720x480 pictures
CAT_GENERIC_DEPTH = {"dejitter_sub": (5, 6), "subpic_schedule_sub": (5, 6), "play": (5, 6), "ts_psi_join": (5, 6), "ntsc_prepend": (4, 4),
                     "even": (5, 6), "trickplay": (5, 6), "stream_switcher": (6, 6),
                     "stream_switcher_ml": (5, 6), "audio_merge": (5, 6), "grid": (5, 6), "sync": (5, 6)}
# further jobs of a row that start from a non-initial state (seqx --prefix: operation numbers of the OP_ enum of pipex_cat.c) and, for the deep ones,
# offer a sub-alphabet only (--only): (extra arguments, quick depth, thorough depth). The rows with a reference input and input subpipes need
# 3 operations before anything can flow (allocate the subpipe, connect the output, define the flow).
#   29 alloc_sub   8 set_output(S0)   0 set_flow_def(F1)   17 option 1 value 0 (videocont: latency of two buffer periods)
#   0/1 set_flow_def(F1/F2)  3/7 input (plain / shared)  38 the reference input's pump  11 toggle S0  10/8 set_output(NULL/S0)  31 release(sub0)  40 release
_CONT_ONLY = "0,1,3,7,38,11,10,8,31,29,43"   # 43 = release (operation numbers: see the OP_ enum of pipex_cat.c)
#   blit: 33 dispatch(ready pump 0)   14 / 18 / 22 / 26 one value of each option of subpipe 0 (rect, alpha, alpha threshold, z-index)
CAT_EXTRA = {"audio_copy": [(["--prefix", "8,0,40", "--only", "0,1,3,4,5,6,7,40,43"], 4, 5, 2)],   # late providers: output, F1, first answer; then definitions, data, answers
             "buffer": [(["--prefix", "0,8,16", "--only", "3,4,5,7,33,34,38,12"], 5, 6)],   # definition, output, max_size 6: then only data and the loop
             "play": [(["--prefix", "29,29,0,30", "--only", "3,4,42,1,31,32,43"], 4, 5)],
             "blit": [(["--prefix", "29,8,0", "--only", "0,1,3,7,38,33,11,31,14,18,22,26,43"], 4, 5)],
             # second job: both inputs exist, the second one has its definition ("in2") and has just been selected by name (the first
             # one is now the previous input, a crossblend is in progress): releases, data and reference buffers from there
             "audiocont": [(["--prefix", "29,8,0", "--only", _CONT_ONLY], 5, 6), (["--prefix", "29,29,42,15", "--only", "31,32,38,3,0,1,8,43"], 4, 5)],
             # grid: grid input and grid output allocated, the output's output connected (30 sub.set_output)
             "grid": [(["--prefix", "29,29,30"], 4, 5)],
             # sync: sound subpipe allocated, both outputs connected, sound definition given
             "sync": [(["--prefix", "29,8,30,0"], 4, 5)],
             "videocont": [(["--prefix", "29,8,0", "--only", _CONT_ONLY], 5, 6), (["--prefix", "29,8,0,17", "--only", _CONT_ONLY], 5, 6)]}
# rows left out of C20: the sources start on any control command, a getter included
C20_EXCLUDED = ("void_source", "sine_wave_source")
CAT_HEAVY = {"buffer": 1, "setattr>delay>idem": 1, "ts_split": 1, "ts_psi_split": 1}

C20_HEAVY = {"rate_limit": 1, "ts_sync": 1, "time_limit": 1, "qsink": 1, "skip>htons": 1, "buffer": 0, "skip": 1, "dup": 1, "genaux": 1, "delay": 1, "setattr": 1, "setflowdef": 1, "match_attr": 1}   # two instances per history

CAT_GENERIC = ("burst", "convert_to_block", "discard_blocking", "dump", "noclock", "nodemux", "setrap") + CAT_GENERIC2

def _cat_jobs(oracle, tier, rows=CAT_ROWS, pools=(0, 2)):
    q = tier == "quick"
    jobs = []
    for r in rows:
        d = (5 if q else 6) - CAT_HEAVY.get(r, 0) - (C20_HEAVY.get(r, 0) if oracle == "C20" else 0)
        # (pool, who provides managers: 0 the probes / 1 the sinks with shared managers, depth)
        if oracle == "C20" and r in C20_EXCLUDED:
            continue
        # provider 2 = late providers (the sinks keep manager requests until the operation "provide"); not under the C20 oracle, whose
        # differential run legitimately sees different request traffic when getters re-trigger a pipe's check
        late = oracle != "C20"
        if r in CAT_GENERIC:
            gq, gt = CAT_GENERIC_DEPTH.get(r, (4, 5))
            axes = [(pools[0], 0, gq)] if q else [(pools[0], 0, gt), (pools[-1], 1, gt)]
            if late:
                axes.append((pools[0], 2, gq - 1 if q else gt - 1))
        elif q:
            axes = [(pools[0], 0, d)] + [(p, 1, d - 1) for p in pools[1:]]
            if late:
                axes.append((pools[0], 2, d - 1))
        else:
            axes = [(pools[0], 0, d)] + [(p, 1, d) for p in pools[1:]] + [(pools[0], 1, d - 1)] + [(p, 0, d - 1) for p in pools[1:]]
            if late:
                axes.append((pools[0], 2, d - 1))
        for (pool, prov, depth) in axes:
            jobs.append(("pipex_cat", ["--row", r, "--oracle", oracle, "--pool", pool, "--prov", prov, "--depth", depth, "--deadline", 75 if q else 840]))
        for item in CAT_EXTRA.get(r, []):
            (extra, dq, dt) = item[:3]
            if len(item) > 3 and oracle == "C20":
                continue   # (start states that need late providers: not under the C20 oracle, see above)
            for (pool, prov) in ([(pools[0], item[3])] if len(item) > 3 else [(pools[0], 0)] if q else [(pools[0], 0), (pools[-1], 1)]):
                jobs.append(("pipex_cat", ["--row", r, "--oracle", oracle, "--pool", pool, "--prov", prov, "--depth", dq if q else dt, "--deadline", 75 if q else 840] + extra))
    return jobs

_CAT_BOUNDS = {"quick": "78 catalogue rows (the first 32: 29 pipes, the queue pair also without an event loop for the source, 2 chains; then 29 further rows with the generic oracles only, depth 4, input-subpipe rows depth 5): every sequence of up to 5 operations (4 for buffer and the 3-pipe chain) with pool depth 0 and managers provided by the probes, and up to 4 (3) operations with pool depth 2 and managers provided by the sinks (shared managers), over the row's alphabet "
                        "(rows added later: crop / trickplay / setrap / multicat_probe / discard_blocking / even / stream_switcher with their option setters and getters, blit, videocont, audiocont, grid, sync (reference input + input subpipes; "
                        "each also from a start state in which a subpipe is allocated, the output connected and a definition given, over a sub-alphabet - see CAT_EXTRA), audio_split, audio_merge, rtp_h264, rtp_mpeg4) "
                        "(set_flow_def F1/F2/foreign, 5 input shapes incl. empty, 3+2-segment and shared-segment buffers, set_output S0/S1(rejecting)/NULL, sink answer toggle, flush, "
                        "every option setter x 3-4 values, subpipe alloc/set_output/release, pump dispatch, an upstream request whose answer makes the upstream push a buffer, "
                        "a probe that tears the subpipes down on source_end, release), followed by release of everything and a run of the event loop to quiescence",
               "thorough": "same alphabet, one operation deeper, all four (pool, provider) combinations"}
_CAT_NOTE = ("Pipe-private state is not readable from outside, so histories are not merged: the full tree is enumerated up to the depth. "
             "Catalogue: idem skip htons delay setattr setflowdef probe_uref match_attr null dup(+2 output subpipes) time_limit genaux buffer rate_limit "
             "queue_sink+queue_source(one thread, mock loop; also with a source that never gets a loop and is destroyed with a non-empty queue) aggregate chunk_stream ts_sync ts_check ts_align ts_psi_split(+2 filtered outputs) ts_split(+2 PID outputs) burst convert_to_block discard_blocking dump noclock nodemux setrap (the last seven with the generic oracles only), and the chains skip>htons and setattr>delay>idem; "
             "further rows with the generic oracles only, each with the input definition, attributes and input content its pipe requires "
             "(text / TS / PES / PSI / framer content from per-row tables, pictures and sound from the upstream's own managers, buffers without payload for the blank generators): "
             "dejitter (main input; and main + input subpipes) multicat_probe aes_decrypt (AES-128 key / pass-through) dtsdi ts_pid_filter ts_pcr_interpolator ts_tstd (not C20) "
             "ts_decaps ts_pes_decaps ts_psi_merge ts_psi_join(input subpipes) telx_framer s302_framer opus_framer void_source sine_wave_source (sources, mock timers; not C20) "
             "separate_fields row_split ntsc_prepend crop (pictures) rtp_pcm_pack audio_copy (sound) video_blank audio_blank subpic_schedule (main input; and main + input subpipes) "
             "play(input subpipes) blit(background on the main pipe, pictures to blit on input subpipes with rect / alpha / alpha threshold / z-index options; the probe asks for every picture the pipe can prepare) "
             "videocont audiocont (reference input on the main pipe, input subpipes, input selection by subpipe command and by name, latency / tolerance / crossblend options) grid (grid input + grid output) "
             "sync (pictures on the main pipe, sound on the input subpipes, clock and timers) audio_split (+2 output subpipes) audio_merge (input subpipes) rtp_h264 rtp_mpeg4; "
             "C04 on the picture rows crop, blit, videocont, grid additionally requires every delivered picture to have the hsize / vsize of the last definition the sink accepted; "
             "other pipe types are outside the bound.")

def _c01_uref_jobs(tier):
    q = tier == "quick"
    jobs = []
    for pool in (0, 2):
        for faults in (1, 2):
            jobs.append(("c01_uref", ["--pool", pool, "--faults", faults, "--depth", (7 if faults == 1 and pool == 2 else 6) if q else 8, "--deadline", 75 if q else 840]))
    return jobs

CHECKS["C01"] = {
    "engine": "pipex", "design_ref": "DESIGN.md section 3 C01",
    "technique": "explicit-state enumeration of all control/data/release sequences up to a depth on every catalogue pipe (real code), end-state accounting by counting managers, heap-block tracker, neighbour refcounts and ASan",
    "level_text": "Every operation sequence up to the stated depth on each catalogue pipe, with recording neighbours, for pool depths 0 and 2. After the history everything the application holds is released and the mock event loop is run until quiescent; then: every heap block allocated during the history is gone (sanitizer malloc/free hooks), the counting umem manager saw no leak / double free / overrun, no uref is live or was freed twice (counting uref manager), every sink and the probe were released exactly as often as they were used (never entered after their last release), every manager is back to its creator's single reference, and ASan saw no use after free. Below the pipes (c01_uref): every sequence of alloc_block / alloc_control / set attribute / dup / attach a duplicated buffer / detach / free over two real urefs (uref_std, udict_inline, ubuf_block_mem on the counting allocator) in which, up to twice, 'the k-th next memory request is refused' (k=1..4; requests to the umem manager and libc allocations of the uref / dictionary / buffer / shared-area descriptors alike) is armed as an environment deviation; after every step the allocator saw no double or unknown free, holds exactly the areas of the shared buffers and dictionaries that are alive, and every surviving uref kept its attributes and payload; at the end nothing is left. Bounded, not a proof.",
    "level_note": _CAT_NOTE + " With pool depth 2 a stale access to a recycled structure is invisible to ASan; the same history is run with pool depth 0.",
    "jobs": {"quick": _cat_jobs("C01", "quick") + _c01_uref_jobs("quick"), "thorough": _cat_jobs("C01", "thorough") + _c01_uref_jobs("thorough")},
    "rule": "state = one operation history (no merging); non-trivial = histories in which at least one buffer reached a sink",
    "bounds": _CAT_BOUNDS,
    "assumptions": DEFAULT_ASSUME + ["inputs are only sent after the pipe accepted a flow definition (ownership / protocol rules respected by the harness)"],
    "job_timeout": {"quick": 300, "thorough": 1500},
}
CHECKS["C04"] = {
    "engine": "pipex", "design_ref": "DESIGN.md section 3 C04",
    "technique": "explicit-state enumeration of all control/data/release sequences up to a depth on every catalogue pipe (real code) with accepting/rejecting recording sinks; ordered event-log automaton and sink-log rules",
    "level_text": "Same enumeration as C01. On the recording probe's ordered log (log messages included), per pipe and subpipe: first non-log event is 'ready', exactly one 'dead', nothing at all after 'dead', every pipe that became ready is dead after teardown. On each recording sink's log: no buffer before an accepted flow definition, none while the last answer was a rejection, the definition offered has the expected prefix; for one-to-one and duplicating pipes additionally: the last accepted definition is the current one and a new set_flow_def precedes the first buffer after every (re)connection and every change of definition. Bounded, not a proof.",
    "level_note": _CAT_NOTE,
    "jobs": {"quick": _cat_jobs("C04", "quick"), "thorough": _cat_jobs("C04", "thorough")},
    "rule": "state = one operation history (no merging); non-trivial = histories in which at least one buffer reached a sink",
    "bounds": _CAT_BOUNDS,
    "assumptions": DEFAULT_ASSUME + ["'touches its output' is read as: sends it a flow definition or a buffer"],
    "job_timeout": {"quick": 300, "thorough": 1500},
}
CHECKS["C05"] = {
    "engine": "pipex", "design_ref": "DESIGN.md section 3 C05",
    "technique": "explicit-state enumeration of all input/control sequences up to a depth on every pass-through / split / buffering catalogue pipe (real code); sequence numbers in payload and attribute checked at recording sinks against the documented transformation and a model of the output contract",
    "level_text": "Same enumeration as C01 (buffers of 0, 2, 3 and 5 octets, one or two segments, dated). Every buffer seen by a sink must be one that was input, at most once per sink, in input order, with exactly the documented change (identity; skip offset removed; octet pairs swapped; delay added to the three dates; attributes added; match_attr predicate) on payload, attributes, dates and flags; one-to-one and duplicating pipes deliver during the input call or never, to exactly the sinks a model of the output contract names (definition stored, output connected, definition accepted) - so a lost, extra or misrouted buffer is caught; holding pipes (time_limit, genaux, buffer, rate_limit, queue sink + source) keep arrival order and, when the output stays connected and accepting, deliver everything once the loop is quiescent; whatever is still held at the end is freed (accounting as in C01). Bounded, not a proof.",
    "level_note": _CAT_NOTE + " Chains: skip>htons and setattr>delay>idem only.",
    "jobs": {"quick": _cat_jobs("C05", "quick", [r for r in CAT_ROWS if r not in ("qsink_noloop", "agg", "chunk", "ts_sync", "ts_check", "ts_align", "ts_psi_split", "ts_split", "burst", "convert_to_block", "discard_blocking", "dump", "noclock", "nodemux", "setrap") + CAT_GENERIC2]),
             "thorough": _cat_jobs("C05", "thorough", [r for r in CAT_ROWS if r not in ("qsink_noloop", "agg", "chunk", "ts_sync", "ts_check", "ts_align", "ts_psi_split", "ts_split", "burst", "convert_to_block", "discard_blocking", "dump", "noclock", "nodemux", "setrap") + CAT_GENERIC2])},
    "rule": "state = one operation history (no merging); non-trivial = histories in which at least one buffer reached a sink",
    "bounds": _CAT_BOUNDS,
    "assumptions": DEFAULT_ASSUME + ["skip offsets never exceed the buffer size (undefined by the documentation)"],
    "job_timeout": {"quick": 300, "thorough": 1500},
}
CHECKS["C20"] = {
    "engine": "pipex", "design_ref": "DESIGN.md section 3 C20",
    "technique": "explicit-state enumeration of all setter/getter/data sequences up to a depth on every catalogue pipe (real code), twice in lock-step: one instance with every getter called after every step, one without; last-accepted-value model and differential comparison of the sinks' logs",
    "level_text": "Same enumeration as C01, on two identical instances of the pipe. On the first, after every step every getter of the pipe is called (skip offset, delay, setattr/setflowdef dictionary, aggregate/ts_sync/ts_check output size, chunk mtu+align, sync count, time limit, genaux getattr, buffer max/low/high, rate limit + duration, queue-sink max length and pseudo-output, output, flow definition) and must return the last value whose setter succeeded (values the setter refuses are part of the alphabet); the second instance gets no getter call at all. Setter results must agree between the two, and at the end the sinks of both must have seen the same definitions and buffers - a getter that changes the pipe shows as a difference. Bounded, not a proof.",
    "level_note": _CAT_NOTE,
    "jobs": {"quick": _cat_jobs("C20", "quick", pools=(0,)), "thorough": _cat_jobs("C20", "thorough")},
    "rule": "state = one operation history (no merging); non-trivial = histories in which at least one buffer reached a sink",
    "bounds": {"quick": _CAT_BOUNDS["quick"] + "; for C20 pool depth 0 only and one operation less on the rows with options or pumps (two instances per history)",
               "thorough": _CAT_BOUNDS["thorough"]},
    "assumptions": DEFAULT_ASSUME + ["genaux's initial getattr is an inline function (address not comparable across translation units): only values set by the harness are compared"],
    "job_timeout": {"quick": 300, "thorough": 1500},
}


def _c12_jobs(tier):
    q = tier == "quick"
    jobs = []
    for topo in (0, 1, 2, 3, 4, 5):
        for pool in (0, 2):
            # (topology 5 has the largest alphabet: its quick job is cut in two at the first operation)
            for sh in ((["--shard", "0/2"], ["--shard", "1/2"]) if q and topo == 5 else ([],)):
                jobs.append(("c12_request", ["--topo", topo, "--pool", pool, "--nreq", 2, "--depth", 6 if q else (8 if pool == 0 and topo in (0, 3, 4) else 7)] + sh + ["--deadline", 75 if q else 840]))
        jobs.append(("c12_request", ["--topo", topo, "--pool", 0, "--nreq", 3, "--depth", 5 if q else 6, "--deadline", 75 if q else 840]))
        # providers that answer inside register, and a requester whose uref_mgr callback withdraws and re-issues its uclock request
        for (tprov, cb) in ((1, 0), (1, 1), (0, 1), (2, 0)):
            jobs.append(("c12_request", ["--topo", topo, "--pool", 0, "--nreq", 3, "--tprov", tprov, "--cb", cb, "--depth", 5 if q else 6, "--deadline", 75 if q else 840]))
    dl = 75 if q else 840
    # flow-format and buffer-manager requests (they carry a flow definition) through the same chains: request set
    # --reqs 0,3,4 = uref_mgr, flow_format, ubuf_mgr; providers holding / answering ubuf_mgr inside register / declining
    for topo in (0, 1, 2, 3, 4, 5):
        for tprov in ((0, 1, 2) if topo in (0, 3) else (0, 2)):
            jobs.append(("c12_request", ["--topo", topo, "--pool", 0, "--reqs", "0,3,4", "--tprov", tprov, "--depth", 5 if q else 6, "--deadline", dl]))
    # topology 6: P1 is a filter made of the output, flow-format and buffer-manager helpers, chained the documented way
    # (control_ubuf_mgr before control_output): it answers flow_format / ubuf_mgr itself and forwards the rest; its own
    # two requests travel through its output helper (operation P1.set_flow_def makes it negotiate)
    for pool in (0, 2):
        jobs.append(("c12_request", ["--topo", 6, "--pool", pool, "--reqs", "1,3,4", "--depth", 5 if q else 6, "--deadline", dl]))
    # providers decline and the ubuf_mgr request proposes a definition the memory-backed managers cannot serve ("pic.hw."): it has to
    # travel past uprobe_ubuf_mem to the application probe placed after it
    for topo in (0, 1):
        jobs.append(("c12_request", ["--topo", topo, "--pool", 0, "--reqs", "0,3,4", "--tprov", 2, "--hwdef", 1, "--depth", 5 if q else 6, "--deadline", dl]))
    # topology 7: the real segment-source bin with a request of its own (uclock) in its bin-output list; only plumbing operations
    jobs.append(("c12_request", ["--topo", 7, "--pool", 0, "--reqs", "2", "--tprov", 0, "--depth", 6 if q else 8, "--deadline", dl]))
    for tprov in (1, 2):
        jobs.append(("c12_request", ["--topo", 6, "--pool", 0, "--reqs", "1,3,4", "--tprov", tprov, "--depth", 5 if q else 6, "--deadline", dl]))
    jobs.append(("c12_request", ["--topo", 6, "--pool", 0, "--nreq", 3, "--depth", 5 if q else 6, "--deadline", dl]))
    jobs.append(("c12_request", ["--topo", 6, "--pool", 0, "--reqs", "0,1,3", "--tprov", 1, "--cb", 1, "--depth", 5 if q else 6, "--deadline", dl]))
    nsh = 2 if q else 4
    for sh in range(nsh):
        jobs.append(("c12_request", ["--topo", 6, "--pool", 0, "--reqs", "3,4", "--depth", 6 if q else 7, "--shard", "%d/%d" % (sh, nsh), "--deadline", dl]))
    # environment deviation: the out-of-band queue sink -> source (255 entries) is full (operation fill = burst of
    # register / unregister of a throw-away request while the source is not dispatched; drain = dispatch until idle);
    # plumbing fixed (P1 -> queue sink, P2 -> T0); the head registers on P1 (--head 0) or on the queue sink itself
    for (head, pool) in ((0, 0), (1, 0), (0, 2)):
        jobs.append(("c12_request", ["--topo", 3, "--pool", pool, "--nreq", 2, "--env", 1, "--head", head, "--depth", 6 if q else (8 if pool == 0 else 7), "--deadline", dl]))
    jobs.append(("c12_request", ["--topo", 3, "--pool", 0, "--reqs", "3,4", "--env", 1, "--head", 1, "--depth", 6 if q else 7, "--deadline", dl]))
    return jobs

CHECKS["C12"] = {
    "engine": "pipex", "design_ref": "DESIGN.md section 3 C12",
    "technique": "explicit-state enumeration of all register/unregister/set_output/provide/release (and loop dispatch) sequences up to a depth over chains of two real pipes between a recording requester and two recording providers, in one thread and across a queue sink/source pair (also with its out-of-band queue full); routing and callback oracles after every step",
    "level_text": "Chains head -> P1 -> P2 -> {T0,T1} with (P1,P2) in idem/idem, skip/setflowdef, dup/idem, idem -> queue sink | queue source -> idem (mock loop, every dispatch order), ts_align (a bin pipe whose inner pipe every set_flow_def replaces: helper_bin_input / helper_bin_output) -> idem, auto_framer -> idem, and a filter written in the harness from the real output / flow-format / buffer-manager helper macros chained the documented way (control_ubuf_mgr before control_output, the layout of upipe_freetype) -> idem: that filter answers the flow_format and ubuf_mgr requests of its upstream itself, through its probes, exactly once and forwards nothing of them, while the two requests it issues itself on set_flow_def travel through its output helper; requests uref_mgr, uclock, sink_latency, flow_format, ubuf_mgr (sets of 2 or 3); every sequence up to the stated depth of register, unregister, P1.set_output(P2|NULL), P2.set_output(T0|T1|NULL), provide by a provider holding a request, pump dispatch, release of P2 / P1. After every step: the provider reachable through the outputs holds exactly one registration per request registered at the head and every other provider none (withdrawn on re-plumbing, re-issued to the new output, never twice); an answer given by a provider reaches the head callback exactly once with that value; the callback never fires while the request is not registered (including answers in flight in the queue); no provider is asked to unregister what it does not hold; at the end no proxy or message is left allocated. Environment deviation on the queue topology: one operation fills the out-of-band queue sink -> source (255 entries) with a burst of register / unregister of a throw-away request while the source is not dispatched, another dispatches until the loop is idle; a registration made while the queue is full must be refused with an error, and no answer may reach a requester that unregistered while it was full. Bounded, not a proof.",
    "level_note": "Chain length 2 (+ queue); longer chains repeat the same helper. Requests that no provider holds are answered by the real uprobe_uref_mgr / uprobe_uclock / uprobe_ubuf_mem probes. The helper filter of topology 6 is harness code (the only module chaining the two helpers without intercepting flow-format requests first, upipe_freetype, needs the FreeType library); upipe_blit intercepts flow_format before the helper. Across the queue an answer given while a withdrawal of the same request is still travelling (or was lost) may rightly be dropped: the exact count is then only bounded from above. Known on the unchanged tree (known_findings.txt): an unregister made while the out-of-band queue is full is dropped, not deferred. Added later: operation P1.set_output(T1) (one non-NULL output replaced by another); topology 7, the real segment-source bin (helper_bin_output) after upipe_attach_uclock, whose own uclock request must be held exactly once by the provider its output reaches; --hwdef: providers decline, the ubuf_mgr request proposes a definition no memory-backed manager can serve and an application probe behind all the fixture's probes provides it (the request has to travel past uprobe_ubuf_mem).",
    "jobs": {"quick": _c12_jobs("quick"), "thorough": _c12_jobs("thorough")},
    "rule": "state = one operation history (no merging); non-trivial = histories in which a provider held a registration or the head callback fired",
    "bounds": {"quick": "6 topologies x pool depth {0,2}: all sequences of up to 6 operations with 2 request types; 3 request types up to depth 5, also with providers answering inside register, providers declining every request (the probes must then answer) and with a requester callback that withdraws and re-issues another request (mutating the request lists during re-plumbing); request set uref_mgr + flow_format + ubuf_mgr up to depth 5 on the 6 topologies (providers holding / declining; answering inside register on topologies 0 and 3); helper filter -> idem: uclock + flow_format + ubuf_mgr up to depth 5 (pool depth {0,2}, the three provider behaviours, the re-issuing callback), flow_format + ubuf_mgr up to depth 6; full out-of-band queue: register / unregister / provide / dispatch / fill / drain up to depth 6 from the plumbed state, head on P1 or on the queue sink, request sets uref_mgr + uclock and flow_format + ubuf_mgr",
               "thorough": "depth 7, depth 8 for topologies 0, 3, 4 at pool depth 0 (2 request types); depth 6 (3 request types, and every set with flow_format / ubuf_mgr); helper filter with 2 types depth 7; full queue depth 8 (7 at pool depth 2 and for flow_format + ubuf_mgr)"},
    "assumptions": DEFAULT_ASSUME + ["a requester unregisters its requests before releasing the pipe it registered them on (ownership rule)",
                                      "full-queue deviation: the queues have emptied before the pipeline is taken down (a queue source released while its out-of-band queue is full cannot be told and stays allocated: seen, outside this property)"],
    "job_timeout": {"quick": 300, "thorough": 1500},
}


def _c06_jobs(tier):
    q = tier == "quick"
    dl = 70 if q else 840
    jobs = []
    def j(script, qlen, loop, maxlen, bound, pre=0):
        jobs.append(("c06_queue", ["--script", script, "--qlen", qlen, "--loop", loop, "--maxlen", maxlen, "--bound", bound, "--deadline", dl]
                     + (["--preattach", 1] if pre else [])))
    k = 3 if q else 4
    # the queue source first lives on an event loop of the application (both watchers there), then is attached to the consumer's
    j("fiir", 1, 1, 0, k, pre=1)
    j("fiFir", 2, 1, 0, 2 if q else 3, pre=1)
    for script in ("fiir", "fiiir", "fiFir", "fiixir", "fillir"):
        for qlen in (1, 2):
            j(script, qlen, 1, 0, k)
    for script in ("fir", "fr", "fiir"):
        j(script, 1, 0, 0, k + 1)          # producer without an event loop: a full queue may drop, never reorder / duplicate / hang
    for script in ("fiiwr", "fiiiwr"):      # quiescence: both loops idle => everything sent has arrived (lost wake-ups)
        for qlen in (2, 4):
            j(script, qlen, 1, 0, k)
    j("fiwiwr", 2, 1, 0, k)
    j("fiiir", 1, 1, 1, k)                  # max_length 1 on the sink
    j("fiiar", 1, 1, 0, k)                  # event loop re-attached while the sink is stalled
    j("fiaiilr", 2, 1, 0, k - 1)
    j("fiiiir", 3, 1, 0, k - 1)
    j("fiFiir", 1, 1, 0, k - 1 if q else k)
    def x(script, bound):
        jobs.append(("c06_xfer", ["--script", script, "--qlen", 8, "--bound", bound, "--deadline", dl]))
    for script in ("aurm", "aumr", "aulrm", "aoulrm", "amur"):
        x(script, k)
    x("auourm", k - 1)
    x("auulurm", k - 1)
    def w(script, bound):
        jobs.append(("c06_worker", ["--script", script, "--qlen", 2, "--bound", bound, "--deadline", dl]))
    for script in ("waofiir", "waofiFir"):
        w(script, 2 if q else 3)
    for script in ("waofir", "wafoiir", "waoflilr"):
        w(script, 1 if q else 3)
    if not q:
        j("fiir", 1, 1, 0, 5)
        j("fir", 1, 1, 0, 6)
        j("fiiiir", 1, 1, 0, 4)
        j("fiixiir", 2, 1, 0, 4)
    # freeze / thaw nesting of the per-thread event-loop probe (c06_freeze.c, seqx over two real pthreads in strict alternation)
    fdl = 50 if q else 840
    def z(*args):
        jobs.append(("c06_freeze", list(args) + ["--deadline", fdl]))
    z("--probe", "pthread", "--depth", 8 if q else 14)
    z("--probe", "pthread", "--worker", 1, "--depth", 6 if q else 9)
    # the application freezes the worker bin itself (counting mutex on the xfer manager), forwards a control, thaws
    z("--probe", "pthread", "--worker", 1, "--binfreeze", 1, "--depth", 7 if q else 9)
    n = 4 if q else 12                     # no merging of states: the canonical form is the history
    for i in range(n):
        z("--probe", "pthread", "--history-states", "--depth", 4 if q else 6, "--shard", "%d/%d" % (i, n))
        z("--probe", "pthread", "--worker", 1, "--history-states", "--depth", 4 if q else 6, "--shard", "%d/%d" % (i, n))
    z("--probe", "plain", "--model", "nest", "--depth", 8 if q else 14)
    return jobs

CHECKS["C06"] = {
    "engine": "vsched", "design_ref": "DESIGN.md section 3 C06",
    "technique": "stateless preemption-bounded exploration of all interleavings of (L1) a producer thread owning the real queue sink and a consumer thread owning the real queue source, (L2) an application thread owning a real upipe_xfer pipe and the remote thread its manager is attached to, (L3) an application thread owning a real linear worker pipe (upipe_worker.c) built inside the script around a recording remote pipe and the remote thread, each thread with its own mock event loop over simulated descriptors; sequence/ordering, thread-confinement, deadlock and use-after-free (ASan) oracles per execution; plus (freeze) explicit-state enumeration of all set / freeze / thaw / need_upump_mgr sequences on the real per-thread event-loop probe over two real pthreads driven in strict alternation, against a reference model",
    "level_text": "Producer scripts over set_flow_def / input / flush / loop step / release on the real upipe_qsink, consumer loop on the real upipe_qsrc with a recording sink; queue lengths 1-3, with and without a producer event loop, with max_length 0/1. Every interleaving with at most k preemptions at each atomic operation and each descriptor read/write of the shared queue and refcounts, every dispatch order of ready pumps. Per execution: the consumer receives the flow definition before data and each buffer exactly once in order (nothing lost when the producer has a loop; after a definition change the new definition precedes the next buffer), source_end comes after the last buffer, no deadlock / livelock, every event of the queue sink is thrown in the producer thread and every event of the queue source and every entry into the consumer's sink happens in the consumer thread, nothing is used after free (ASan) and everything is released at the end. L2: application scripts over attach_upump_mgr / set_uri / set_output / loop step / release(xfer pipe) / release(xfer manager) on a real upipe_xfer pipe whose remote pipe is a harness pipe recording the thread of every entry and throwing an event (forwarded by the real uprobe_xfer) on every set_uri: the remote pipe sees exactly the scripted commands, once, in order, only from the remote thread, is released there; forwarded events are thrown by the xfer pipe in the application thread, at most once each; the xfer pipe and its manager die, nothing is used after free, no deadlock. L3: scripts over upipe_wlin_alloc / attach_upump_mgr / set_output / set_flow_def / input / loop step / release: buffers travel application -> in_qsink | in_qsrc -> remote pipe -> out_qsink | out_qsrc -> application sink and must arrive exactly once, in order, after the right definition, with nothing lost once both loops are idle; the remote pipe (and the transferred queue source) is only entered from the remote thread, the application's sink only from the application thread. Freeze (c06_freeze.c): every sequence up to the stated depth over {set(manager A | B | NULL), freeze, thaw, a pipe throws need_upump_mgr} x {thread 0, thread 1} on the real uprobe_pthread_upump_mgr (thread 1 is a real pthread executing on command; the probe's state is pthread-specific data); a recording probe in front of it is the model (per thread: manager set, freeze depth counted on every freeze / thaw event whoever throws it): need_upump_mgr is answered with the calling thread's manager iff one is set and the depth is 0, otherwise it reaches the next probe with the caller's pointer untouched; both threads are asked after every step; manager reference counts are 1 + the threads they are set on after every step and 1 after thread 1 has exited and the probe is released. With the worker alphabet (thread 0: set A/NULL, freeze, thaw, allocate a pipe for the worker (asks for a manager when allocated and when asked for its output), upipe_wsink_alloc around it with the real upipe_worker.c / upipe_transfer.c / queue pipes; thread 1: set B/NULL, freeze, thaw, need, run its loop) the allocator's own freeze / thaw and every need_upump_mgr of the inner pipes in either thread go through the same model: a pipe built inside the application's frozen section is never given a manager, whatever worker allocations precede it in that section; a deported pipe is only entered from thread 1, never holds manager A and is released in thread 1 once both loops are idle. The same alphabet in one thread on uprobe_upump_mgr.c against the same nesting model. Bounded, not a proof.",
    "level_note": "Levels L1 (queue pair), L2 (transfer) and L3 (linear worker over a harness-attached xfer manager) of DESIGN section 3/C06, and the freeze / thaw machinery of the upump-manager probes (thaws balanced: an unbalanced thaw wraps the unsigned counter and is outside the alphabet; the sink worker is the one driven, the linear / source allocators share _upipe_work_alloc). upipe_pthread_transfer (real thread creation) and source workers are not explored; ThreadSanitizer is not run under the scheduler (coroutines); instead the 'no unsynchronised access' clause is additionally checked by a free-running ThreadSanitizer pass over the repository's transfer / worker (linear, source, sink) / pthread-upump-manager tests, which use real threads, real upump_ev loops and upipe_pthread_transfer (suppressions: engine/tsan.supp). Managers' internal atomics are not scheduling points (thread-safe services decided by C07/C09). Sequentially consistent interleavings. Added later: c06_queue --preattach (the queue source first lives on an event loop of the application, then is attached to the consumer's: nothing of it may stay on the first loop); c06_freeze --binfreeze (counting mutex on the xfer manager; bin_freeze / forwarded set_option / bin_thaw: the lock is held exactly while the application keeps the worker bin frozen, the deported pipe is entered from the application thread only under it).",
    "jobs": {"quick": _c06_jobs("quick") + _free_jobs(FREE_TESTS[:6], []), "thorough": _c06_jobs("thorough") + _free_jobs(FREE_TESTS[:6], [])},
    "rule": "one execution = one complete schedule; states = scheduling points visited; non-trivial = executions in which the consumer's loop ran while the producer was still in its script; freeze: state = history (merged on model state + observed answers + reference counts unless stated), non-trivial = a thread is frozen with a manager set or a worker exists",
    "bounds": {"quick": "scripts fiir fiiir fiFir fiixir fillir x queue length 1-2, preemption bound 3; no-loop producer scripts bound 4; max_length 1; length 3 and fiFiir at bound 2; xfer scripts aurm aumr aulrm aoulrm amur at bound 3, auourm auulurm at bound 2 (command queue length 8); worker scripts waofiir waofiFir at bound 2, waofir wafoiir waoflilr at bound 1 (queue length 2); freeze: 12 operations, every history up to depth 8 (states merged on model + observations), depth 6 with the worker alphabet (at most 3 pipes, 2 workers), every history up to depth 4 without merging; non-threaded probe depth 8",
               "thorough": "bound 4 (5 for no-loop), plus fiir at bound 5 and fir at bound 6; xfer and worker scripts one preemption deeper; freeze: depth 14 / 9 (worker) / 6 without merging"},
    "assumptions": DEFAULT_ASSUME + ["scheduling points: every uatomic_* on the queue / pipe refcounts, every simulated eventfd read/write, every loop iteration; sequentially consistent memory",
                                     "a loop callback that changes nothing visible is treated as a retry and yields to the other thread (fair scheduling)"],
    "job_timeout": {"quick": 300, "thorough": 1500},
}


# ---- per-property fragments written next to their harness (harness/cNN.registry.py) ----
def _load_fragment(pid, path):
    import os
    g = {}
    with open(path) as fh:
        exec(compile(fh.read(), path, "exec"), g)
    HARNESSES.update(g["HARNESS"])
    if "C01_EXTRA_JOBS" in g:      # accounting-only runs reported under C01
        for tier in ("quick", "thorough"):
            CHECKS["C01"]["jobs"][tier] = CHECKS["C01"]["jobs"][tier] + list(g["C01_EXTRA_JOBS"][tier])
    c = dict(g["CHECK"])
    c.setdefault("assumptions", DEFAULT_ASSUME)
    c.setdefault("design_ref", "DESIGN.md section 3 " + pid)
    CHECKS[pid] = c

import os as _os
_frag_dir = _os.path.join(_os.path.dirname(_os.path.dirname(_os.path.abspath(__file__))), "harness")
FRAGMENTS = ["C15", "C16", "C17"]
for _pid in FRAGMENTS:
    _f = _os.path.join(_frag_dir, _pid.lower() + ".registry.py")
    if _os.path.exists(_f):
        _load_fragment(_pid, _f)
