#!/usr/bin/env python3
"""Development build of a registered harness into build/dev-<name>/ (independent of ./check's cache).
usage: tools/hb.py <harness>"""
import os, subprocess, sys
sys.path.insert(0, os.path.dirname(os.path.abspath(__file__)))
import registry
name = sys.argv[1]
h = registry.HARNESSES[name]
env = dict(os.environ)
if h.get("libs"):
    env["HBUILD_LIBS"] = " ".join(h["libs"])
sys.exit(subprocess.call([os.path.join(os.path.dirname(os.path.abspath(__file__)), "hbuild.sh"), name] + list(h["src"]), env=env))
