#!/bin/sh
# usage: mkscratch.sh <dir>  — scratch git worktree of /repo HEAD with a full build (outside /repo and /verif)
set -e
d=$1
git -C /repo worktree add --detach "$d" HEAD >/dev/null 2>&1
rsync -a --exclude .git /repo/ "$d"/
cd "$d" && ./configure >/dev/null 2>&1 && make clean >/dev/null 2>&1 && make -j16 >/dev/null 2>&1
echo "scratch worktree ready: $d"
