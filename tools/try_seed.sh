#!/bin/bash
# usage: try_seed.sh <seed-id e.g. C03-a> [tier] [PROP] — applies the seeded patch to a scratch copy of /repo's sources
# (outside /repo and /verif), runs the property's check against the copy (VERIF_REPO), removes the copy.
# /repo itself is never touched, so this is safe while other checks or helpers build from /repo.
id=$1; tier=${2:-quick}; prop=${3:-${id%%-*}}
d=/tmp/try-repo-$id-$$
rm -rf $d; mkdir -p $d
rsync -a --exclude .git --exclude '*.o' --exclude '*.lo' --exclude '.libs' --exclude '*.la' --exclude '*.a' /repo/include /repo/lib $d/
mkdir -p $d/tests; cp /repo/tests/*.c /repo/tests/*.h $d/tests/ 2>/dev/null
( cd $d && patch -p1 -s < /verif/seeded/$id/patch.diff ) || { echo "patch does not apply"; rm -rf $d; exit 2; }
out=/tmp/try-$id-$prop.out
mkdir -p /tmp/try-evidence-$$
( cd /verif && VERIF_REPO=$d VERIF_EPHEMERAL=1 VERIF_EVIDENCE_DIR=/tmp/try-evidence-$$ ./check $prop $tier > $out 2>&1 ); rc=$?
rm -rf $d /tmp/try-evidence-$$
grep -E "^VIOLATION|^  sig=|^C[0-9]+ " $out | cut -c1-300 | head -8
echo "== $id tier=$tier check=$prop exit=$rc" | tee -a /verif/seeded/$id/detect.log; grep -m2 -E "^  sig=" $out | cut -c1-200 >> /verif/seeded/$id/detect.log
