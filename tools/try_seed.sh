#!/bin/bash
# usage: try_seed.sh <seed-id e.g. C03-a> [tier] — applies the seeded patch to /repo, runs the property's check, reverts.
id=$1; tier=${2:-quick}; prop=${id%%-*}
cd /repo && git diff --quiet || { echo "/repo not clean"; exit 2; }
git -C /repo apply /verif/seeded/$id/patch.diff || { echo "patch does not apply"; exit 2; }
cd /verif; cp evidence/$prop.json /tmp/evidence-$prop.bak 2>/dev/null; ./check $prop $tier > /tmp/try-$id.out 2>&1; rc=$?; cp /tmp/evidence-$prop.bak evidence/$prop.json 2>/dev/null
git -C /repo checkout -- .
grep -E "^VIOLATION|^  sig=|^C[0-9]+ " /tmp/try-$id.out | cut -c1-300 | head -8
echo "== $id tier=$tier check exit=$rc" | tee -a /verif/seeded/$id/detect.log; grep -m2 -E "^  sig=" /tmp/try-$id.out | cut -c1-200 >> /verif/seeded/$id/detect.log
