#!/bin/bash
# usage: confirm_seed.sh <worktree> <sub (a|b)> <PROP> 
# Confirms a seeded mutation in its scratch worktree: builds with the patch, runs the
# repository test suite (must be 82 pass / m3u fail), runs the demo with and without.
# Then stores it under /verif/seeded/<PROP>-<sub>/ with a confirm.log.
wt=$1; sub=$2; prop=$3
sd=$wt/seed/$sub
out=/verif/seeded/$prop-${4:-$sub}
mkdir -p $out
log=$out/confirm.log
: > $log
cd $wt || exit 1
git checkout -q -- . 
echo "== apply" >> $log
git apply $sd/patch.diff >> $log 2>&1 || { echo "APPLY FAILED" >> $log; exit 1; }
make -j8 >/dev/null 2>>$log || { echo "BUILD FAILED" >> $log; git checkout -q -- .; exit 1; }
make check -j8 > $wt/check.out 2>&1
grep -E "^# (TOTAL|PASS|FAIL)|^FAIL" $wt/check.out >> $log
pass=$(grep -E "^# PASS" $wt/check.out | head -1 | awk '{print $3}')
libs="-Wl,--start-group $(ls $wt/lib/upipe-modules/.libs/libupipe_modules.a $wt/lib/upipe-pthread/.libs/libupipe_pthread.a $wt/lib/upump-ev/.libs/libupump_ev.a $wt/lib/upipe/.libs/libupipe.a 2>/dev/null | tr '\n' ' ') -Wl,--end-group -lev -lpthread -lm"
cmd="gcc -g -I$wt/include $sd/demo.c $libs -o $wt/demo_build/demo"
echo "== demo build cmd: $cmd" >> $log
mkdir -p $wt/demo_build
eval "$cmd" >> $log 2>&1
( cd $wt/demo_build && timeout 120 ./demo >/dev/null 2>&1 ); rc_mod=$?
echo "demo with patch: exit $rc_mod" >> $log
cd $wt; git checkout -q -- .; make -j8 >/dev/null 2>&1
eval "$cmd" >> $log 2>&1
( cd $wt/demo_build && timeout 120 ./demo >/dev/null 2>&1 ); rc_clean=$?
echo "demo without patch: exit $rc_clean" >> $log
cp $sd/patch.diff $sd/demo.c $sd/meta.json $out/ 2>/dev/null
if [ "$pass" = "82" ] && [ $rc_mod -ne 0 ] && [ $rc_clean -eq 0 ]; then echo "CONFIRMED $prop-${4:-$sub}" | tee -a $log; else echo "NOT CONFIRMED $prop-${4:-$sub} (pass=$pass mod=$rc_mod clean=$rc_clean)" | tee -a $log; fi
