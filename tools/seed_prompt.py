#!/usr/bin/env python3
import json, sys
pid = sys.argv[1]
d = "/tmp/seed" + (sys.argv[2] if len(sys.argv) > 2 else "") + "-" + pid
for l in open('/verif/properties.jsonl'):
    p = json.loads(l)
    if p['id'] == pid:
        break
TS = pid in ("C14", "C15", "C16", "C17")
TSNOTE = ("Note lib/upipe-ts and lib/upipe-framers are NOT built or tested by the suite (the external biTStream header library is missing), so changes there "
          "trivially pass the tests. A stand-in for those headers is available at /tmp/bitstream-shim (add -I/tmp/bitstream-shim; see /tmp/bitstream-shim/README.md; "
          "harnesses linking upipe_ts_encaps.c also need /tmp/bitstream-shim/stubs/upipe_ts_mux_str.c): compile the lib/upipe-ts/*.c or lib/upipe-framers/*.c files you need "
          "directly together with your demo.c, e.g. gcc -I/tmp/bitstream-shim -I" + d + "/include -I" + d + " demo.c " + d + "/lib/upipe-ts/upipe_ts_decaps.c ... " + d + "/lib/upipe/.libs/libupipe.a -lpthread -lm. "
          "The repository's own tests/upipe_ts_*_test.c and tests/upipe_h264_framer_test.c show how to drive these pipes."
          if TS else
          "Note lib/upipe-ts and lib/upipe-framers are NOT built or tested by the suite (an external header library is missing): do not put your changes there.")
print(f"""You are helping evaluate how well a (separately built, hidden from you) verification effort detects regressions in the Upipe C multimedia framework. Your job is to act as the adversary: introduce realistic, subtle bugs.

Work ONLY inside the scratch git worktree {d} (a worktree of the repository at /repo). Never modify /repo itself. Never read or write anything under /verif. The sandbox has no network.

Setup (run first): 
  git -C /repo worktree add --detach {d} HEAD && rsync -a --exclude .git /repo/ {d}/ && cd {d} && git checkout -- . && ./configure >/dev/null 2>&1 && make clean >/dev/null 2>&1 && make -j8 >/dev/null 2>&1
The existing test suite is `make check -j8` in {d} (about 1-2 minutes). On the unmodified tree it gives 82 PASS and 1 FAIL (tests/upipe_m3u_reader_test.sh always fails; ignore it). {TSNOTE}

The semantic property to break:
  Title: {p['title']}
  Statement: {p['statement']}
  Quantified over: {p['quantifier']['text']}
  Code it is anchored in: {', '.join(p['anchors']['files'])}

Task: produce TWO independent changes (call them a and b, at different sites / of different nature) to the Upipe source code (files under include/ or lib/ only, not tests) such that each one, applied alone:
  1. still compiles (make -j8) and the existing test suite still gives exactly the same result (82 PASS, only the m3u test failing) — you must actually run `make check -j8` with each change applied and confirm;
  2. breaks the property above in a way that needs something specific to manifest: a particular multi-step sequence of operations, an unusual (but legal/documented) argument or input, a particular thread interleaving, a fault at a particular point, or two cooperating sites that each look fine alone. NOT something ordinary use would expose at once, and not a crash on the first call;
  3. is realistic: a small, plausible mistake a maintainer could make in a refactoring or an "optimisation" (off-by-one, stale cache, wrong operand, missing update of a counter, forgotten case, check moved after use, ...). A few lines. No deliberate obfuscation, no "if (magic value)" special-casing, no dead/unreachable code, no changes that depend on wall-clock time or randomness.
  4. comes with a demonstration: a small standalone C program (demo.c) using only the public Upipe API/headers, that exits 0 on the unmodified tree and exits non-zero (assert failure / wrong output detected) with the change applied. Build it against the worktree: e.g. `gcc -I{d}/include demo.c {d}/lib/upipe/.libs/libupipe.a {d}/lib/upipe-modules/.libs/libupipe_modules.a -lpthread -lev -lm -o demo` (check which .a files exist; many facilities are header-only inline code, in which case the change takes effect by recompiling the demo). You must run the demo both ways and confirm.

Deliverables, in {d}/seed/a/ and {d}/seed/b/ :
  patch.diff  — `git diff` of ONLY the source change (must apply with `git apply` on a clean checkout of the same HEAD)
  demo.c      — the demonstration program, with the exact build+run commands in a comment at the top
  meta.json   — {{"property": "{pid}", "summary": "...what was changed...", "needs": "...what is needed for the violation to manifest...", "commands_run": ["..."], "tests_result": "82 pass / 1 fail (m3u)", "demo_unmodified_exit": 0, "demo_modified_exit": <n>}}
When done, leave the worktree source tree CLEAN (git checkout -- . so that no change remains applied; keep the untracked seed/ directory). Do not remove the worktree.
Final answer: a short report per change (site, what it breaks, what it needs to manifest, confirmation of test-suite and demo results).""")
