#!/bin/sh
# Development build of one harness, independent of ./check's keyed cache (safe to run concurrently).
# usage: tools/hbuild.sh <name> <harness.c> [more sources ...]      ->  /verif/build/dev-<name>/<name>
# Sources may use @REPO@ / @VERIF@ prefixes. Same flags as ./check (clang -O1 -g ASan, -DUPIPE_VERIF).
set -e
name=$1; shift
V=/verif; R=${VERIF_REPO:-/repo}
out=$V/build/dev-$name
mkdir -p $out
objs=""
pids=""
for s in "$@" @VERIF@/engine/vpoint_stub.c; do
  src=$(echo "$s" | sed "s#@REPO@#$R#; s#@VERIF@#$V#")
  o=$out/$(echo "$src" | md5sum | cut -c1-8)_$(basename "$src" .c).o
  objs="$objs $o"
  if [ ! -f "$o" ] || [ "$src" -nt "$o" ] || [ -n "$(find $V/engine $V/harness $V/shim -newer "$o" -name '*.h' | head -1)" ]; then
    clang -g -O1 -fno-omit-frame-pointer -DUPIPE_VERIF -D_GNU_SOURCE -Wno-unused-function -Wno-unused-value \
      -I$V/gen -I$V/shim -I$V/engine -I$V/harness -I$R/include -I$R/lib -fsanitize=address -c "$src" -o "$o" &
    pids="$pids $!"
  fi
done
for p in $pids; do wait $p; done
clang -fsanitize=address $objs -o $out/$name ${HBUILD_LIBS:-} -lpthread -lm
echo $out/$name
