#!/bin/bash
# usage: revert_check.sh <commit> <PROP> [tier]
# Re-creates the tree *without* one fix commit in a scratch copy (outside /repo and /verif), runs the property's
# check against it (VERIF_REPO), prints what the check reports, removes the copy. Evidence files are restored.
c=$1; prop=$2; tier=${3:-quick}
d=/tmp/rv-$c
rm -rf $d; mkdir -p $d
rsync -a --exclude .git --exclude '*.o' --exclude '*.lo' --exclude '.libs' --exclude '*.la' --exclude '*.a' /repo/include /repo/lib $d/ 
mkdir -p $d/tests; cp /repo/tests/*.c /repo/tests/*.h $d/tests/ 2>/dev/null
( cd $d && git -C /repo show $c -- include lib | patch -R -p1 -s ) || { echo "revert failed"; rm -rf $d; exit 2; }
cp /verif/evidence/$prop.json /tmp/evidence-$prop.bak 2>/dev/null
( cd /verif && VERIF_REPO=$d ./check $prop $tier > /tmp/rv-$c.out 2>&1 ); rc=$?
cp /tmp/evidence-$prop.bak /verif/evidence/$prop.json 2>/dev/null
grep -E "^VIOLATION|^  sig=|^KNOWN" /tmp/rv-$c.out | cut -c1-260 | head -8
echo "== without $c: ./check $prop $tier exit=$rc"
rm -rf $d
