#!/usr/bin/env python3
"""Regenerates /verif/MANIFEST.json from tools/registry.py (single source of truth)."""
import json, os, sys
sys.path.insert(0, os.path.dirname(os.path.abspath(__file__)))
import registry

VERIF = os.path.dirname(os.path.dirname(os.path.abspath(__file__)))
ALL = ["C%02d" % i for i in range(1, 21)]
checks = []
for pid in ALL:
    c = registry.CHECKS.get(pid)
    if not c or c.get("unclaimed"):
        continue
    checks.append({
        "property_id": pid,
        "quick_cmd": "./check %s quick" % pid,
        "thorough_cmd": "./check %s thorough" % pid,
        "evidence_file": "/verif/evidence/%s.json" % pid,
        "replay_cmd_template": "./check %s --replay {path}" % pid,
        "engine": c["engine"],
        "level_claimed": {"category": "model_checking", "text": c["level_text"], "design_ref": c["design_ref"]},
        "level_note": c["level_note"],
        "technique": c["technique"],
    })
na = []
for pid in ALL:
    c = registry.CHECKS.get(pid)
    if not c or c.get("unclaimed"):
        na.append({"property_id": pid, "reason": registry.NOT_YET.get(pid, "check not built yet in this round (planned, see DESIGN.md section 3)")})
m = {
    "version": 1,
    "setup_cmd": "make -C /verif setup",
    "hooks": {
        "guard": "UPIPE_VERIF",
        "enable": "checks compile /repo sources directly with clang -DUPIPE_VERIF (see /verif/check, CFLAGS_COMMON)",
        "baseline_off_cmd": "cd /repo && make -j16 >/dev/null 2>&1; make check -j8",
        "source_commits": registry.HOOK_COMMITS,
        "add_only": True,
    },
    "engines": [
        {"name": "seqx", "path": "/verif/engine/seqx.h", "serves_properties": [p for p in ALL if registry.CHECKS.get(p, {}).get("engine") == "seqx"],
         "kind_free_text": "explicit-state BFS over operation sequences replayed on fresh real objects, dedup by canonical state"},
        {"name": "vsched", "path": "/verif/engine/vsched.c", "serves_properties": [p for p in ALL if registry.CHECKS.get(p, {}).get("engine") == "vsched"],
         "kind_free_text": "stateless preemption-bounded exploration of real threads over hooked synchronisation points"},
        {"name": "pipex", "path": "/verif/engine/pipex.h", "serves_properties": [p for p in ALL if registry.CHECKS.get(p, {}).get("engine") == "pipex"],
         "kind_free_text": "seqx specialised to pipelines: pipe catalogue, recording probe/sinks, counting managers, mock event loop"},
    ],
    "checks": checks,
    "not_applicable": na,
    "notes": "All checks are ./check <ID> <tier>; they rebuild from /repo's working tree (content-hash keyed cache under /verif/build). "
             "known_findings.txt lists fixed/known defects.",
}
json.dump(m, open(os.path.join(VERIF, "MANIFEST.json"), "w"), indent=1)
print("MANIFEST.json: %d checks, %d not_applicable" % (len(checks), len(na)))
