#!/bin/bash
# usage: confirm_seed_ts.sh <worktree> <sub (a|b)> <PROP>
# Like confirm_seed.sh, for seeds whose demo compiles lib/upipe-ts or lib/upipe-framers sources itself
# (with the bitstream stand-in): the build command is taken from the comment at the top of demo.c.
wt=$1; sub=$2; prop=$3
sd=$wt/seed/$sub
out=/verif/seeded/$prop-${4:-$sub}
mkdir -p $out $wt/demo_build
log=$out/confirm.log
: > $log
cd $wt || exit 1
git checkout -q -- .
python3 - "$sd/demo.c" "$wt/demo_build/demo" > $wt/demo_build/build.sh <<'PY'
import sys,re
src=open(sys.argv[1]).read()
head=src[:src.index('*/')] if '*/' in src else src[:4000]
lines=[re.sub(r'^\s*\*\s?','',l) for l in head.split('\n')]
out=[]; i=0
while i < len(lines):
    l=lines[i].strip()
    if re.match(r'^[A-Z_]+=\S+$', l):
        out.append(l)
    if re.search(r'\b(gcc|cc|clang)\b', l) and ' -' in l:
        cmd=l
        while cmd.rstrip().endswith('\\') and i+1 < len(lines):
            i+=1; cmd=cmd.rstrip()[:-1]+' '+lines[i].strip()
        cmd=re.sub(r'-o\s+\S+', '-o '+sys.argv[2], cmd)
        parts=cmd.split('&&')
        keep=[]
        for part in parts:
            keep.append(part)
            if re.search(r'\b(gcc|cc|clang)\b', part):
                break
        cmd=' && '.join(x.strip() for x in keep)
        out.append(cmd); break
    i+=1
print('\n'.join(out))
PY
echo "== demo build script:" >> $log; cat $wt/demo_build/build.sh >> $log
echo "== apply" >> $log
git apply $sd/patch.diff >> $log 2>&1 || { echo "APPLY FAILED" >> $log; exit 1; }
make -j8 >/dev/null 2>>$log || { echo "BUILD FAILED" >> $log; git checkout -q -- .; exit 1; }
make check -j8 > $wt/check.out 2>&1
grep -E "^# (TOTAL|PASS|FAIL)|^FAIL" $wt/check.out >> $log
pass=$(grep -E "^# PASS" $wt/check.out | head -1 | awk '{print $3}')
( cd $wt && rm -f $wt/demo_build/demo && ( bash $wt/demo_build/build.sh || ( cd $sd && bash $wt/demo_build/build.sh ) ) ) >> $log 2>&1
( cd $wt/demo_build && timeout 300 ./demo >/dev/null 2>&1 ); rc_mod=$?
echo "demo with patch: exit $rc_mod" >> $log
cd $wt; git checkout -q -- .; make -j8 >/dev/null 2>&1
rm -f $wt/demo_build/demo
( cd $wt && rm -f $wt/demo_build/demo && ( bash $wt/demo_build/build.sh || ( cd $sd && bash $wt/demo_build/build.sh ) ) ) >> $log 2>&1
( cd $wt/demo_build && timeout 300 ./demo >/dev/null 2>&1 ); rc_clean=$?
echo "demo without patch: exit $rc_clean" >> $log
cp $sd/patch.diff $sd/demo.c $sd/meta.json $out/ 2>/dev/null
if [ "$pass" = "82" ] && [ $rc_mod -ne 0 ] && [ $rc_clean -eq 0 ]; then echo "CONFIRMED $prop-${4:-$sub}" | tee -a $log; else echo "NOT CONFIRMED $prop-${4:-$sub} (pass=$pass mod=$rc_mod clean=$rc_clean)" | tee -a $log; fi
